#!/bin/bash
# usage: refstore.sh <refactoring dir> <name> "<area / what it restructures>" "<checks to run>" "<expected: pass | inconclusive:<reason>>"
M=$1; N=$2; D=/verif/refactorings/$N; mkdir -p $D
cp $M/patch.diff $D/; cp $M/README.txt $D/ 2>/dev/null
python3 - "$@" <<'PY'
import sys, json
M, N, area, checks, expected = sys.argv[1:6]
json.dump(dict(name=N, origin='independent sub-agent asked for a behaviour-preserving refactoring (bit-identical results), with its own differential test', area=area,
               confirmed_by_me='reftest.sh in a fresh scratch worktree: patch applies to HEAD, repository test suite 30/30, the agent\'s differential test passes',
               checks=checks.split(), expected=expected), open('/verif/refactorings/%s/meta.json' % N, 'w'), indent=1)
PY
ls $D | tr '\n' ' '; echo
