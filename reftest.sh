#!/bin/bash
# usage: reftest.sh <refactoring dir with patch.diff + diff.cpp + build.sh> <name> <check ids...>
# A behaviour-preserving refactoring must NOT raise an alarm: every named check has to exit 0 with no VIOLATION line.
# 1. confirms in a scratch worktree that the change applies, the repo's suite passes and its differential test passes
# 2. applies it to /repo, runs the named checks (quick), restores /repo
M=$1; NAME=$2; shift 2; CHECKS="$@"
W=/tmp/mut/rverify_$$; OUT=/tmp/mut/rverify_out_$$; mkdir -p $OUT
git -C /repo worktree add -q --detach $W HEAD || exit 9
cleanup() { git -C /repo worktree remove --force $W 2>/dev/null; rm -rf $OUT; }
trap cleanup EXIT
res="name=$NAME"
git -C $W apply $M/patch.diff || { echo "$res PATCH-DOES-NOT-APPLY"; exit 8; }
( cd $W && g++ tests/tests.cpp src/*.cpp -lgtest -lgmp -O3 -Wall -pthread -fopenmp -mavx2 -o $OUT/testcpu 2>$OUT/build.log && $OUT/testcpu > $OUT/tests.log 2>&1 ); trc=$?
res="$res tests_rc=$trc passed=$(grep -c '\[       OK \]' $OUT/tests.log 2>/dev/null)"
if [ -f $M/build.sh ]; then ( cd $OUT && cp -r $M/* . && timeout 1200 bash ./build.sh $W >diff.log 2>&1 ); res="$res diff_rc=$?"; fi
echo "$res"
git -C /repo apply $M/patch.diff || { echo "cannot apply to /repo"; exit 7; }
for c in $CHECKS; do
  out=$(cd /verif && timeout ${CHECK_TMO:-1200} ./check $c --tier ${TIER:-quick} 2>&1); rc=$?
  echo "  check $c rc=$rc $(echo "$out" | grep -c '^VIOLATION') violation line(s)"
  [ $rc -ne 0 ] && echo "$out" | grep -E 'VIOLATION|inconclusive|INCONC|Unsupported' | head -8 | cut -c1-300 | sed 's/^/    /'
  echo "$out" | tail -1 | sed 's/^/    /'
done
git -C /repo checkout -- .
