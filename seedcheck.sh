#!/bin/bash
# re-runs every archived seeded change: applies seeded/<name>/patch.diff to /repo, runs the check(s) of the property it breaks (quick tier),
# expects exit 1 with a VIOLATION line, restores /repo.  usage: seedcheck.sh [name-glob]
cd /verif
for d in seeded/${1:-*}/; do
  n=$(basename $d); p=$(python3 -c "import json;print(json.load(open('$d/meta.json'))['breaks_property'])")
  git -C /repo apply /verif/$d/patch.diff || { echo "$n: patch does not apply"; continue; }
  out=$(./check $p --tier quick 2>&1); rc=$?
  git -C /repo checkout -- .
  echo "$n property=$p rc=$rc violations=$(echo "$out" | grep -c '^VIOLATION') $(echo "$out" | tail -1 | cut -c1-120)"
done
