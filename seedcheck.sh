#!/bin/bash
# re-runs every archived seeded change: applies seeded/<name>/patch.diff to /repo, runs the check(s) of the property it breaks (quick tier),
# expects exit 1 with a VIOLATION line (exit 0 for the changes documented as NOT CAUGHT in their meta.json), restores /repo.
# usage: seedcheck.sh [name-glob]     prints one line per change and a final tally; "UNEXPECTED" marks a regression
cd /verif
bad=0; tot=0
for d in seeded/${1:-*}/; do
  n=$(basename $d); p=$(python3 -c "import json;print(json.load(open('$d/meta.json'))['breaks_property'])")
  exp=$(python3 -c "import json;m=json.load(open('$d/meta.json'));print(0 if m['confirmed_by_me']['checks_run_with_patch_applied_to_repo'].startswith('NOT CAUGHT') else 1)")
  # a change may be caught by a neighbouring property's check (e.g. C18 changes by the harness of C05): use the first check named in the meta data
  c=$(python3 -c "import json,re;m=json.load(open('$d/meta.json'));s=m['confirmed_by_me']['checks_run_with_patch_applied_to_repo'];r=re.findall(r'C\d\d',s);print(r[0] if r and not s.startswith('NOT') else m['breaks_property'])")
  git -C /repo apply /verif/$d/patch.diff || { echo "$n: patch does not apply"; bad=$((bad+1)); continue; }
  out=$(timeout ${CHECK_TMO:-1500} ./check $c --tier quick 2>&1); rc=$?
  git -C /repo checkout -- .
  tot=$((tot+1)); tag=""; [ $rc -ne $exp ] && { tag="UNEXPECTED(expected rc=$exp)"; bad=$((bad+1)); }
  echo "$n property=$p check=$c rc=$rc violations=$(echo "$out" | grep -c '^VIOLATION') $tag $(echo "$out" | tail -1 | cut -c1-110)"
done
echo "SEEDCHECK total=$tot unexpected=$bad"
