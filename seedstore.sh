#!/bin/bash
# usage: seedstore.sh <mutation dir> <name> <property> "<needs>" "<caught by>" "<not caught by / notes>"
M=$1; N=$2; D=/verif/seeded/$N; mkdir -p $D
cp $M/patch.diff $D/; cp $M/README.txt $D/ 2>/dev/null; cp $M/build.sh $D/ 2>/dev/null
for f in $M/demo.* $M/*.hpp; do [ -f "$f" ] && [ $(stat -c %s "$f") -lt 200000 ] && cp "$f" $D/; done
python3 - "$@" <<'PY'
import sys, json, os
M, N, prop, needs, caught, notes = sys.argv[1:7]
meta = dict(name=N, breaks_property=prop, origin='independent sub-agent given only the property text and a scratch worktree', needs_to_manifest=needs,
            confirmed_by_me=dict(how='seedtest.sh in a fresh scratch worktree: patch applies to HEAD; repository test suite 30/30 with the change; demo exits non-zero with the change and 0 without',
                                 checks_run_with_patch_applied_to_repo=caught, notes=notes))
json.dump(meta, open('/verif/seeded/%s/meta.json' % N, 'w'), indent=1)
PY
ls $D | tr '\n' ' '; echo
