#!/bin/sh
# runs every claimed check (tier $1, default quick) on the current tree; prints one line per check
cd "$(dirname "$0")"
T=${1:-quick}
for p in $(python3 -c "import json;print(' '.join(c['property_id'] for c in json.load(open('MANIFEST.json'))['checks']))"); do
  /usr/bin/time -f "$p rc=%x %es %MKB" ./check $p --tier $T 2>&1 | grep -E 'INCONCLUSIVE|VIOLATION|ENCODING|tier=|rc=' | cut -c1-300 | tr '\n' ' '; echo
done
