#!/bin/sh
# Builds and runs the repository's own test suite (guard off: there are no hooks) outside /repo, leaving the working tree alone.
set -e
D=$(mktemp -d /tmp/gv_baseline.XXXXXX)
trap 'rm -rf "$D"' EXIT
cd /repo
g++ tests/tests.cpp src/*.cpp -lgtest -lgmp -O3 -Wall -pthread -fopenmp -mavx2 -o "$D/testcpu" 2>"$D/build.log" || { cat "$D/build.log"; exit 1; }
"$D/testcpu"
