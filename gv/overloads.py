# AST-driven census + operand-role inference + obligations for the batched / AVX2 / AVX512 helper overloads (C16: Goldilocks3, C17: Goldilocks).
#  Every pointer-to-Element argument is a distinct *unbounded* object (initial contents an uninterpreted function of the byte offset, ordered
#  write log); strides and index lists are fully symbolic 64-bit values; arithmetic goes through the proved lane / scalar contracts (field level).
import z3, re, ctypes, json
from . import core, smt, kern, fmode
from .interp import *
from .runner import Ob, ok, viol, inconc
from .kern import P

SHAPES = {'': (3, False, 3, False), '13': (1, False, 3, False), '31': (3, False, 1, False), '33c': (3, False, 3, True), '13c': (1, False, 3, True),
          '31c': (3, False, 1, True), '1c3c': (1, True, 3, True)}

def family(cls):
    if cls == 'Goldilocks3': return re.compile(r'(add|sub|mul)(\w*?)_(batch|avx|avx512)$')
    return re.compile(r'(copy|add|sub|mul)()_(batch|avx|avx512)$')

def overloads(ctx, cls, cfg='avx512'):
    rx = family(cls); out = []
    for m in kern.census(ctx, cfg):
        if m['cls'] != cls: continue
        mm = rx.match(m['name'])
        if not mm: continue
        if cls == 'Goldilocks3' and mm.group(2) not in SHAPES: continue
        if cls == 'Goldilocks' and all(('__m256i' in p[1] or '__m512i' in p[1]) and '*' not in p[1] for p in m['params']) and len(m['params']) == 3 and m['name'] in ('add_avx', 'sub_avx', 'add_avx512', 'sub_avx512'):
            continue     # the pure register kernels are C02 / C11
        out.append(m)
    return out

class Role:
    def __init__(s, **kw): s.__dict__.update(kw)
    def __repr__(s): return 'Role(%s)' % ', '.join('%s=%r' % kv for kv in s.__dict__.items() if kv[0] in ('kind', 'dim', 'const', 'stride', 'names'))

OVERRIDES = {
    # Goldilocks3::mul_batch(result, a, b, b_[3]): b is one constant extension element, b_ its precomputed challenge sums
    ('Goldilocks3', 'mul_batch', 4, 'b_'): dict(shape='33c', aux='b_'),
}

def is_vec(t): return '__m256i' in t or '__m512i' in t
def infer(m):
    """census entry -> dict(op, n, out=Role, a=Role, b=Role|None, aux=...) or raises Unsupported with the reason"""
    cls = m['cls']; mm = family(cls).match(m['name']); op, shape, suf = mm.group(1), mm.group(2), mm.group(3)
    n = 8 if suf == 'avx512' else 4
    ps = [(p[0], p[1].replace('Goldilocks::', '').replace('Goldilocks3::', '')) for p in m['params']]
    ov = None
    for (c, nm, np_, has), v in OVERRIDES.items():
        if c == cls and nm == m['name'] and np_ == len(ps) and any(p[0] == has for p in ps): ov = v
    if cls == 'Goldilocks3': da, ca, db, cb = SHAPES[ov['shape'] if ov else shape]
    else: da, ca, db, cb = 1, False, 1, False
    groups = {'out': [], 'a': [], 'b': [], 'aux': []}; strides = {}
    def owner(nm):
        if ov and nm == ov.get('aux'): return 'aux'
        if re.fullmatch(r'aux[0-2]_', nm): return 'aux'
        if re.fullmatch(r'(result|c|c_|c4|c8|dst|dst_|c[0-2]_)', nm): return 'out'
        if re.fullmatch(r'(a|a_|a4|a8|in1|a[0-2]_|src|src_)', nm): return 'a'
        if re.fullmatch(r'(b|b_|b4|b8|in2|b[0-2]_)', nm): return 'b'
        return None
    last_ptr = None
    for nm, ty in ps:
        o = owner(nm)
        if o:
            groups[o].append((nm, ty))
            if ty.endswith('*') and 'Element' in ty and 'uint' not in ty: last_ptr = o
            continue
        # stride / offset parameter
        if not re.search(r'uint(64|32)_t', ty): raise Unsupported('parameter %s:%s has no role' % (nm, ty))
        tgt = None
        if re.search(r'(_a|1|0)$', nm) and nm not in ('stride1',): tgt = 'a'
        if nm == 'stride0': tgt = 'a'
        if nm == 'stride1': tgt = 'b'
        if re.search(r'(_b|2)$', nm): tgt = 'b'
        if re.search(r'(_c|_dst)$', nm): tgt = 'out'
        if nm == 'stride': tgt = last_ptr
        if tgt is None: raise Unsupported('stride parameter %s has no owner' % nm)
        strides[tgt] = (nm, 'list' if ty.endswith('*') else 'scalar', 32 if 'uint32' in ty else 64)
    if cls == 'Goldilocks' and op == 'copy':
        groups['a'] = groups['a'] or groups['b']; groups['b'] = []
    def role(g, dim, const, is_out=False):
        prm = groups[g]
        if not prm: return None
        tys = [t for _, t in prm]; st = strides.get(g)
        if len(prm) == 3 and all(is_vec(t) for t in tys): return Role(kind='planar3', dim=3, const=False, byval=not tys[0].endswith('&'), names=[p[0] for p in prm], stride=None)
        if len(prm) != 1: raise Unsupported('operand %s has %d parameters' % (g, len(prm)))
        nm, ty = prm[0]
        if is_vec(ty) and ty.rstrip('&* ').endswith('i') and (ty.endswith('*')): return Role(kind='planar', dim=3, const=False, names=[nm], stride=None)
        if 'Element_avx' in ty: return Role(kind='planar', dim=3, const=False, names=[nm], stride=None)
        if is_vec(ty): return Role(kind='reg', dim=1, const=False, names=[nm], stride=None)
        if ty in ('Element', 'const Element'): return Role(kind='bcast', dim=1, const=True, names=[nm], stride=None)
        if cls == 'Goldilocks3' and ty in ('Element &', 'const Element &') and g != 'out':
            return Role(kind='arr', dim=3, const=True, names=[nm], stride=None)        # Goldilocks3::Element& = one constant extension element
        if cls == 'Goldilocks' and ty in ('const Element &',): return Role(kind='arr', dim=1, const=True, names=[nm], stride=None)   # copy(dst, const Element& src): broadcast
        if 'Element' in ty and ty.endswith('*'): return Role(kind='arr', dim=dim, const=const, names=[nm], stride=st)
        raise Unsupported('operand %s:%s not understood' % (nm, ty))
    out = role('out', 3 if cls == 'Goldilocks3' else 1, False, True)
    a = role('a', da, ca); b = role('b', db, cb)
    if out is None or a is None or (b is None and op != 'copy'): raise Unsupported('missing operand')
    for g, r in (('a', a), ('b', b)):
        if r is None: continue
        if r.kind in ('planar', 'planar3') and {'a': da, 'b': db}[g] != 3: raise Unsupported('planar register operand for a base-field operand')
        if r.kind == 'reg' and {'a': da, 'b': db}[g] != 1: raise Unsupported('single register for an extension operand')
        if r.kind == 'bcast' and {'a': da, 'b': db}[g] != 1: raise Unsupported('by-value Element for an extension operand')
        if g in strides and r.kind != 'arr': raise Unsupported('stride for a non-array operand')
        if r.kind == 'arr' and r.const and r.stride is not None: raise Unsupported('stride for a constant operand')
    aux = None
    if groups['aux']:
        if len(groups['aux']) == 3: aux = Role(kind='planar3', dim=3, const=False, byval=True, names=[p[0] for p in groups['aux']], stride=None)
        else: aux = Role(kind='arr', dim=3, const=True, names=[groups['aux'][0][0]], stride=None)
    return dict(op=op, n=n, out=out, a=a, b=b, aux=aux, cls=cls, shape=shape, params=ps)

# ---------------------------------------------------------------- execution
def vec_ty(n): return Ty('vec', n=n, el=I(64))

class Run:
    """one symbolic execution of an overload with the inferred roles"""
    def __init__(s, ctx, m, info, cfg):
        s.ctx = ctx; s.m = m; s.info = info; s.cfg = cfg; s.n = info['n']
        s.w = core.world(ctx.bdir, ['cen_' + cfg, 'gbf_' + cfg]); s.w.hooks = dict(s.w.base_hooks)
        s.w.soft_pre = True
        s.alg = fmode.Alg('poly'); fmode.install_scalar(s.w, s.alg); fmode.install_lanes(s.w, s.alg, ctx, cfg)
        s.args = {}; s.uobjs = {}; s.svars = {}
    def stride_vals(s, r, g):
        if r.stride is None: return None
        nm, kind, bits = r.stride
        if kind == 'scalar':
            v = z3.BitVec('%s' % nm, bits); s.args[nm] = v; s.svars[nm] = v
            return ('scalar', z3.ZeroExt(64 - bits, v) if bits < 64 else v)
        vs = [z3.BitVec('%s_%d' % (nm, k), 64) for k in range(s.n)]; o = core.obj_words(nm, list(vs), 8); s.args[nm] = Ptr(o, 0)
        for k, v in enumerate(vs): s.svars['%s_%d' % (nm, k)] = v
        return ('list', vs)
    def elem_off(s, r, sv, k, i):
        """byte offset (BV64) of coefficient i of the k-th designated element of an array operand"""
        if r.const: return bvv(8 * i, 64)
        if sv is None: return bvv(8 * (k * (3 if r.dim == 3 else 1) + i), 64)
        if sv[0] == 'scalar': return z3.simplify((bvv(k, 64) * sv[1] + bvv(i, 64)) * bvv(8, 64))
        return z3.simplify((sv[1][k] + bvv(i, 64)) * bvv(8, 64))
    def build_operand(s, g, r, is_out=False):
        """creates argument objects; returns value getter vals[k][i] (z3 Int terms) for inputs"""
        n = s.n; alg = s.alg
        if r.kind == 'arr':
            u = UObj(g); s.uobjs[g] = u; s.args[r.names[0]] = Ptr(u, 0); sv = s.stride_vals(r, g)
            r.sv = sv
            return [[u.A0(s.elem_off(r, sv, k, i)) for i in range(r.dim)] for k in range(n)]
        if r.kind == 'bcast':
            v = alg.var(g + '_val'); s.args[r.names[0]] = FV(v); return [[alg.toz3(v)] for k in range(n)]
        if r.kind == 'reg':
            vs = [alg.var('%s_r%d' % (g, k)) for k in range(n)]; o = Obj(8 * n, g + '_reg', 8 * n)
            if not is_out:
                for k in range(n): o.cells[k] = FV(vs[k])
            s.args[r.names[0]] = Ptr(o, 0); r.obj = o
            return [[alg.toz3(vs[k])] for k in range(n)]
        if r.kind == 'planar':
            vs = [[alg.var('%s_p%d_%d' % (g, i, k)) for i in range(3)] for k in range(n)]; o = Obj(24 * n, g + '_planar', 8 * n)
            if not is_out:
                for i in range(3):
                    for k in range(n): o.cells[i * n + k] = FV(vs[k][i])
            s.args[r.names[0]] = Ptr(o, 0); r.obj = o
            return [[alg.toz3(vs[k][i]) for i in range(3)] for k in range(n)]
        if r.kind == 'planar3':
            vs = [[alg.var('%s_q%d_%d' % (g, i, k)) for i in range(3)] for k in range(n)]; r.objs = []
            for i in range(3):
                if r.byval and not is_out: s.args[r.names[i]] = [FV(vs[k][i]) for k in range(n)]
                else:
                    o = Obj(8 * n, '%s%d' % (g, i), 8 * n)
                    if not is_out:
                        for k in range(n): o.cells[k] = FV(vs[k][i])
                    s.args[r.names[i]] = Ptr(o, 0); r.objs.append(o)
            return [[alg.toz3(vs[k][i]) for i in range(3)] for k in range(n)]
        raise Unsupported('operand kind ' + r.kind)
    def spec(s, A, B):
        info = s.info; op = info['op']; n = s.n; da = info['a'].dim; db = info['b'].dim if info['b'] else 0
        from .props.C09 import f3mul
        out = []
        for k in range(n):
            a = A[k]; b = B[k] if B else None
            if op == 'copy': out.append(list(a)); continue
            if da == 3 and db == 3: r = f3mul(a, b) if op == 'mul' else [a[i] + b[i] if op == 'add' else a[i] - b[i] for i in range(3)]
            elif da == 1 and db == 1: r = [{'add': a[0] + b[0], 'sub': a[0] - b[0], 'mul': a[0] * b[0]}[op]]
            elif da == 1 and db == 3:
                x = a[0]; r = {'add': [x + b[0], b[1], b[2]], 'sub': [x - b[0], -b[1], -b[2]], 'mul': [x * b[0], x * b[1], x * b[2]]}[op]
            else:
                y = b[0]; r = {'add': [a[0] + y, a[1], a[2]], 'sub': [a[0] - y, a[1], a[2]], 'mul': [a[0] * y, a[1] * y, a[2] * y]}[op]
            out.append(r)
        return out
    def execute(s, alias=None):
        """alias: None | ('inplace', g): the output registers are the registers of input operand g (c_ == a_)
                       | ('scalar-in-out', g, j): the by-reference scalar operand g is element j of the output array"""
        info = s.info; w = s.w; n = s.n
        A = s.build_operand('a', info['a']); B = s.build_operand('b', info['b']) if info['b'] else None
        if info['aux'] is not None:
            # precomputed challenge sums (b0+b1, b0+b2, b1+b2) of the (constant) second operand: an input precondition
            ax = info['aux']; b0 = B[0]
            sums = [b0[0] + b0[1], b0[0] + b0[2], b0[1] + b0[2]]
            if ax.kind == 'planar3':
                for i in range(3): s.args[ax.names[i]] = [FV([B[k][0] + B[k][1], B[k][0] + B[k][2], B[k][1] + B[k][2]][i]) for k in range(n)]
            else:
                o = Obj(24, 'aux', 8)
                for i in range(3): o.cells[i] = FV(sums[i])
                s.args[ax.names[0]] = Ptr(o, 0)
        s.build_operand('out', info['out'], is_out=True)
        if alias and alias[0] == 'inplace':
            r = info[alias[1]]; o = info['out']
            if o.kind in ('reg', 'planar'): s.args[o.names[0]] = s.args[r.names[0]]; o.obj = r.obj
            else:
                for i in range(3): s.args[o.names[i]] = s.args[r.names[i]]
                o.objs = r.objs
        if alias and alias[0] == 'scalar-in-out':
            g, j = alias[1], alias[2]; r = info[g]; o = info['out']; u = s.uobjs['out']
            off = s.elem_off(o, o.sv, j, 0)
            s.args[r.names[0]] = Ptr(u, off); s.uobjs.pop(g, None)
            v0 = u.A0(off)
            if g == 'a': A = [[v0] for k in range(n)]
            else: B = [[v0] for k in range(n)]
        fn = '@' + s.m['mangled']
        f = w.funcs.get(fn)
        if f is None: raise Unsupported('function not emitted: ' + fn)
        argv = []
        for (nm, ty), (pt, pn) in zip(info['params'], f.params):
            if nm not in s.args: raise Unsupported('no argument built for %s' % nm)
            argv.append(s.args[nm])
        it = Interp(w); it.call(fn, argv); s.it = it
        return A, B

def fresh_idx(): return z3.BitVec('X_fresh', 64)
ALIAS = [None]      # alias variant of the overload check in progress (read by confirm/native_run)

def alias_variants(info):
    """in-place uses the overload's signature allows: result registers that are also an operand; a by-reference scalar that lives in the result array"""
    out = info['out']; vs = []
    for g in ('a', 'b'):
        r = info[g]
        if r is None: continue
        if out.kind == r.kind and out.kind in ('reg', 'planar') and not getattr(r, 'byval', False): vs.append(('inplace', g))
        if out.kind == r.kind == 'planar3' and not getattr(r, 'byval', False) and not getattr(out, 'byval', False): vs.append(('inplace', g))
        if out.kind == 'arr' and r.kind == 'arr' and r.const and r.dim == 1 and out.dim == 1:
            vs += [('scalar-in-out', g, j) for j in (0, 1, info['n'] - 1)]
    return vs

def check_overload(ctx, m, cfg, alias=None):
    info = infer(m)
    sig = '%s::%s(%s)' % (m['cls'], m['name'], ', '.join('%s %s' % (t, nm) for nm, t in info['params']))
    if alias: sig += ' [%s]' % {'inplace': 'result is operand %s' % alias[1], 'scalar-in-out': 'scalar operand %s is element %s of the result array' % (alias[1], alias[-1])}[alias[0]]
    run = Run(ctx, m, info, cfg); ALIAS[0] = alias
    try: A, B = run.execute(alias)
    except Violation as e: return viol('%s/%s' % (m['name'], e.kind), '%s [line %s]: %s' % (sig, m['line'], e.msg), replay=dict(event=str(e), mangled=m['mangled']))
    pfs = list(getattr(run.w, 'pre_failures', []))
    if pfs:
        fills = kernel_fills(ctx, cfg, pfs[0], info['n'])
        return confirm(ctx, m, info, cfg, sig, 'the operand assumption of Goldilocks::%s is not implied at its call site (%s)' % (pfs[0]['kernel'], pfs[0]['msg'][:90]), None, fills=fills)
    spec = run.spec(A, B); out = info['out']; alg = run.alg; n = run.n; nq = 0
    def cong(x, y): return (alg.toz3(x) - alg.toz3(y)) % P == 0
    def ask(neg, what, tmo=60):
        s = z3.Solver(); s.set('timeout', tmo * 1000); s.add(neg); r = smt.check(s)
        return r, (s.model() if r == z3.sat else None)
    # -- inputs must not be written, and every read must hit a designated position
    for g in ('a', 'b'):
        r = info[g]
        if r is None or r.kind != 'arr' or g not in run.uobjs: continue
        u = run.uobjs[g]
        if u.log: return confirm(ctx, m, info, cfg, sig, 'writes into input operand %s' % g, None)
        des = [run.elem_off(r, r.sv, k, i) for k in range(n) for i in range(r.dim)]
        if u.reads:
            res, mdl = ask(z3.Or([z3.And([rd != d for d in des]) for rd in u.reads]), 'reads'); nq += 1
            if res == z3.sat: return confirm(ctx, m, info, cfg, sig, 'reads operand %s at a position its strides do not designate' % g, mdl)
            if res != z3.unsat: return inconc('read-set query unknown')
    # -- outputs
    if out.kind == 'arr':
        u = run.uobjs['out']
        sv = out.sv
        swr = [(run.elem_off(out, sv, k, i), spec[k][i]) for k in range(n) for i in range(out.dim)]
        # same ordered write log pointwise?  (sufficient; otherwise compare final memories at a fresh index)
        same = len(u.log) == len(swr)
        if same:
            res, mdl = ask(z3.Or([o1 != o2 for (o1, _), (o2, _) in zip(u.log, swr)]), 'offsets'); nq += 1
            same = res == z3.unsat
        if same:
            res, mdl = ask(z3.Or([z3.Not(cong(v1, v2)) for (_, v1), (_, v2) in zip(u.log, swr)]), 'values'); nq += 1
            if res == z3.sat: return confirm(ctx, m, info, cfg, sig, 'a written value differs from the scalar operation on the designated operands', mdl)
            if res != z3.unsat: return inconc('value query unknown')
        else:
            # the write logs differ (order or number of stores): compare the two final memories at a fresh symbolic index
            X = fresh_idx(); impl = u.A0(X); sp = u.A0(X)
            for (o, v) in u.log: impl = z3.If(o == X, alg.toz3(v), impl)
            for (o, v) in swr: sp = z3.If(o == X, alg.toz3(v), sp)
            res, mdl = ask((impl - sp) % P != 0, 'memory', 120); nq += 1
            if res == z3.sat: return confirm(ctx, m, info, cfg, sig, 'final output memory differs from the scalar reference update', mdl)
            if res != z3.unsat: return inconc('final-memory query unknown')
    else:
        cells = []
        for k in range(n):
            for i in range(out.dim):
                if out.kind == 'reg': c = out.obj.cells.get(k)
                elif out.kind == 'planar': c = out.obj.cells.get(i * n + k)
                else: c = out.objs[i].cells.get(k)
                if c is None: return confirm(ctx, m, info, cfg, sig, 'output register lane %d coefficient %d not written' % (k, i), None)
                cells.append((fmode.cls_of(c), spec[k][i]))
        res, mdl = ask(z3.Or([z3.Not(cong(v1, v2)) for v1, v2 in cells]), 'regs'); nq += 1
        if res == z3.sat: return confirm(ctx, m, info, cfg, sig, 'an output lane differs from the scalar operation on the designated operands', mdl)
        if res != z3.unsat: return inconc('register value query unknown')
        for g, u in run.uobjs.items():
            if u.log: return confirm(ctx, m, info, cfg, sig, 'writes into array operand %s although the result is delivered in registers' % g, None)
    return ok('%s: %d queries; roles out=%s a=%s b=%s' % (sig, nq, out.kind, info['a'].kind, info['b'].kind if info['b'] else '-'),
              sample=dict(overload=sig, line=m['line'], lanes=n, roles=dict(out=repr(out), a=repr(info['a']), b=repr(info['b']))))

# ---------------------------------------------------------------- native confirmation with small concrete strides
def kernel_fills(ctx, cfg, pf, n):
    """an operand assumption of a lane kernel is not implied at its call site: ask the solver, bit-precisely on the real kernels, for operand
       words that violate the assumption and make the kernel return the wrong class: directly, and as the output of a producer kernel
       (mult/add/sub of canonical values).  Returns candidate fills [{'a': word, 'b': word}] for the overload's operands."""
    from .props import lanes as L
    T = L.table(n == 8); spec = T.get(pf['kernel']); fills = []
    if spec is None or not spec['pre']: return fills
    sfx = '_avx512' if n == 8 else '_avx'
    same = False
    try:
        x0, y0 = pf['ins'][0][0], pf['ins'][1][0]
        same = (x0 is y0) or (z3.is_expr(x0) and z3.is_expr(y0) and z3.eq(x0, y0))
    except Exception: pass
    NV = [dict(limb_min=0, abstract=False, logic='QF_NIA', share=0.5), dict(limb_min=0, abstract=False, logic=None, share=0.5)]
    def consumer(a, b):
        def mk(w_):
            oc = Obj(8 * n, 'c', 8 * n); oa = core.obj_words('a', [a] * n, 8 * n); ob_ = core.obj_words('b', [b] * n, 8 * n)
            return [Ptr(oc, 0), Ptr(oa, 0), Ptr(ob_, 0)], (lambda ret: [core.words(oc)])
        return kern.run_kernel(ctx, cfg, L.MODS[cfg], pf['fn'], mk)[0][2][1][0][0]
    # (1) direct: arbitrary words
    a = core.bv64('wa'); b = core.bv64('wb'); out = consumer(a, a if same else b)
    r = smt.prove(lambda tr: spec['goal'](L.Z(tr, {'a': a, 'b': a if same else b}, [out])), timeout=40, variants=NV)
    if r.status == 'sat': fills.append(dict(a=r.model.get('wa', 0), b=r.model.get('wa' if same else 'wb', 0), how='direct'))
    # (2) second operand produced by a field kernel from canonical values x, y
    for prod in ('mult', 'add', 'sub'):
        pname = prod + sfx; x = core.limb64('px'); y = core.limb64('py'); a2 = core.bv64('wa')
        def mk(w_):
            o1 = Obj(8 * n, 'prod', 8 * n); ox = core.obj_words('x', [x] * n, 8 * n); oy = core.obj_words('y', [y] * n, 8 * n)
            return [Ptr(o1, 0), Ptr(ox, 0), Ptr(oy, 0)], (lambda ret: [core.words(o1)])
        pv = kern.run_kernel(ctx, cfg, L.MODS[cfg], L.find(ctx, cfg, pname, T[pname], n), mk)[0][2][1][0][0]
        out2 = consumer(pv if same else a2, pv)
        r = smt.prove(lambda tr: spec['goal'](L.Z(tr, {'a': pv if same else a2, 'b': pv}, [out2])), assumptions=[lambda tr: z3.And(tr.val(x) < P, tr.val(y) < P)], timeout=60, variants=NV)
        if r.status == 'sat':
            fills.append(dict(a=core.limbval(r.model, 'px'), b=core.limbval(r.model, 'py'), how='operands of ' + pname, other=r.model.get('wa', 0)))
            fills.append(dict(a=core.limbval(r.model, 'py'), b=core.limbval(r.model, 'px'), how='operands of ' + pname + ' (swapped)'))
            # the failing kernel call may combine DIFFERENT coefficients of an extension element (Karatsuba: a1·b1 against a0·b0): place the
            # witness pair in one coefficient position and small values - or the witness value of the consumer's other operand - elsewhere
            px_, py_, oth = core.limbval(r.model, 'px'), core.limbval(r.model, 'py'), r.model.get('wa', 0)
            for j in range(3):
                for oa, ob in ((oth, 1), (1, oth), (0, 0), (1, 1)):
                    fills.append(dict(a=(lambda k, i, j=j, oa=oa, v=px_: v if i == j else oa), b=(lambda k, i, j=j, ob=ob, v=py_: v if i == j else ob),
                                      how='operands of %s in coefficient %d, (%#x, %#x) in the other coefficients' % (pname, j, oa, ob)))
    return fills

def confirm(ctx, m, info, cfg, sig, text, mdl, fills=()):
    """replay: arrays with distinct contents, strides from the model when small (native), sparse interpreter replay for large strides,
       operand fills from kernel-level solver witnesses, then a fixed set of small strides"""
    n = info['n']; rng = ctx.rng(m['mangled'])
    mg = re.search(r'reads operand (\w) at a position', text)
    if mg:
        # a read outside the designated positions changes no value: it is confirmed by a fault when the operand ends at an inaccessible page
        vals0 = {str(d): mdl[d].as_long() for d in mdl.decls() if z3.is_bv_value(mdl[d])} if mdl is not None else None
        for cs in ([vals0] if vals0 else []) + [None, 'alt', 'perm']:
            try: r = native_run(ctx, m, info, cfg, cs, rng, guard=mg.group(1))
            except Exception as e: r = None
            if r is not None and r[0]: return viol(m['name'], '%s [line %s]: %s; %s' % (sig, m['line'], text, r[1]), replay=r[2])
    cand = []
    if mdl is not None:
        vals = {str(d): mdl[d].as_long() for d in mdl.decls() if z3.is_bv_value(mdl[d])}
        cand.append((vals, None))
    for f in fills: cand += [(None, f), ('alt', f)]
    cand += [(None, None), ('alt', None), ('perm', None)]
    for cs, f in cand:
        try:
            r = native_run(ctx, m, info, cfg, cs, rng, fill=f)
            if r is None and isinstance(cs, dict): r = sparse_run(ctx, m, info, cfg, cs, rng)
        except Exception as e: return inconc('%s: %s; replay failed: %s: %s' % (sig, text, type(e).__name__, e))
        if r is None: continue
        bad, detail, rep = r
        if bad: return viol(m['name'], '%s [line %s]: %s; concrete run%s: %s' % (sig, m['line'], text, (' with operands filled from the solver witness (%s)' % f['how']) if f else '', detail), replay=rep)
    if fills or 'operand assumption' in text:
        f = symbolic_search(ctx, m, info, cfg, budget=240 if ctx.thorough else 120)
        if f is not None:
            r = native_run(ctx, m, info, cfg, None, rng, fill=f)
            if r is not None and r[0]: return viol(m['name'], '%s [line %s]: %s; concrete run with operands from a %s: %s' % (sig, m['line'], text, f['how'], r[1]), replay=r[2])
    return inconc('%s: %s, but no concrete run reproduces a difference (%d candidates)' % (sig, text, len(cand)))

def symbolic_search(ctx, m, info, cfg, budget=120):
    """bit-precise search for a failing operand group: the overload is executed on the real kernels (no contracts) with default strides,
       lane 0 symbolic in a few coefficient positions and zero elsewhere (so most products fold away); tries several position patterns."""
    import itertools, time
    n = info['n']; ra = info['a']; rb = info['b']
    if rb is None or any(r.kind == 'arr' and r.stride is not None and r.stride[1] == 'list' for r in (ra, rb, info['out'])): pass
    pos = [('a', i) for i in range(ra.dim)] + [('b', i) for i in range(rb.dim if rb else 0)]
    # phase 1 (linear): one operand fully symbolic in lane 0, the other fixed to concrete words from a small set that contains 0, 1, -1 and an
    # antipodal pair K, -K (so sums and products hit 0, p and non-canonical bands); every product is symbolic x constant
    K = 2**32 + 1; V = [0, 1, P - 1, K, P - K, 7]
    pats = []
    for (gs, rs, gc, rc) in (('a', ra, 'b', rb), ('b', rb, 'a', ra)):
        for conc in itertools.product(V, repeat=rc.dim):
            if not any(conc): continue
            pats.append((tuple((gs, i) for i in range(rs.dim)), {(gc, i): conc[i] for i in range(rc.dim)}))
    # phase 2 (nonlinear): a few positions symbolic on both sides
    pats += [(c, {}) for c in itertools.combinations(pos, 2)]
    t0 = time.time(); NV = [dict(limb_min=0, abstract=False, logic='QF_NIA', share=0.6), dict(limb_min=0, abstract=False, logic=None, share=0.4)]
    for pat, concv in pats:
        if time.time() - t0 > budget: break
        syms = {(g, i): core.limb64('%s%d' % (g, i)) for (g, i) in pat}
        syms.update({k_: z3.BitVecVal(v_, 64) for k_, v_ in concv.items()})
        w = core.world(ctx.bdir, ['cen_' + cfg, 'gbf_' + cfg]); w.reset(); w.hooks = dict(w.base_hooks); it = Interp(w)
        args = {}; arrs = {}
        def v(g, k, i):
            x = syms.get((g, i), 0) if k == 0 else 0
            return x.as_long() if (z3.is_expr(x) and z3.is_bv_value(x)) else x
        def operand(g, r, is_out=False):
            if r.stride is not None:
                nm, kind, bits = r.stride
                if kind == 'scalar': args[nm] = 3 if r.dim == 3 else 1
                else: args[nm] = Ptr(core.obj_words(nm, [(3 if r.dim == 3 else 1) * k for k in range(n)], 8), 0)
            if r.kind == 'arr':
                o = Obj(8 * 3 * n + 64, g, 64); arrs[g] = o
                if not is_out:
                    for k in range(n):
                        for i in range(r.dim): o.cells[(0 if r.const else k * (3 if r.dim == 3 else 1)) + i] = v(g, 0 if r.const else k, i)
                    for c in range(o.size // 8): o.cells.setdefault(c, 0)
                args[r.names[0]] = Ptr(o, 0); return
            if r.kind == 'bcast': args[r.names[0]] = v(g, 0, 0); return
            if r.kind == 'reg':
                o = core.obj_words(g, [v(g, k, 0) for k in range(n)], 8 * n) if not is_out else Obj(8 * n, g, 8 * n); arrs[g] = o; args[r.names[0]] = Ptr(o, 0); return
            if r.kind == 'planar':
                o = core.obj_words(g, [v(g, k, i) for i in range(3) for k in range(n)], 8 * n) if not is_out else Obj(24 * n, g, 8 * n); arrs[g] = o; args[r.names[0]] = Ptr(o, 0); return
            arrs[g] = []
            for i in range(3):
                if r.byval and not is_out: args[r.names[i]] = [v(g, k, i) for k in range(n)]
                else:
                    o = core.obj_words('%s%d' % (g, i), [v(g, k, i) for k in range(n)], 8 * n) if not is_out else Obj(8 * n, '%s%d' % (g, i), 8 * n); arrs[g].append(o); args[r.names[i]] = Ptr(o, 0)
        try:
            operand('a', ra); operand('b', rb); operand('out', info['out'], True)
            if info['aux'] is not None: return None
            it.call('@' + m['mangled'], [args[nm] for nm, ty in info['params']])
        except (Unsupported, Violation): return None
        out = info['out']
        def cellv(i):
            if out.kind == 'arr': return arrs['out'].cells.get(i)
            if out.kind == 'reg': return arrs['out'].cells.get(0)
            if out.kind == 'planar': return arrs['out'].cells.get(i * n)
            return arrs['out'][i].cells.get(0)
        A0 = [syms.get(('a', i), z3.BitVecVal(0, 64)) for i in range(ra.dim)]; B0 = [syms.get(('b', i), z3.BitVecVal(0, 64)) for i in range(rb.dim)]
        def goal(tr):
            from .props.C09 import f3mul
            a = [tr.val(x) for x in A0]; b = [tr.val(x) for x in B0]
            pr = Run.__new__(Run); pr.info = info; pr.n = 1
            # products through the translator's factory on the limb structure
            class Vv:
                def __init__(s, t, e): s.t = t; s.e = e
            sp = pr.spec([a], [b])[0] if info['op'] != 'mul' else None
            if sp is None:
                mul = lambda X, Y: tr.prod(X, Y)[0]
                if ra.dim == 3 and rb.dim == 3:
                    c0 = mul(A0[0], B0[0]); c1 = mul(A0[0], B0[1]) + mul(A0[1], B0[0]); c2 = mul(A0[0], B0[2]) + mul(A0[1], B0[1]) + mul(A0[2], B0[0]); c3 = mul(A0[1], B0[2]) + mul(A0[2], B0[1]); c4 = mul(A0[2], B0[2])
                    sp = [c0 + c3, c1 + c3 + c4, c2 + c4]
                elif ra.dim == 1 and rb.dim == 3: sp = [mul(A0[0], B0[i]) for i in range(3)]
                elif ra.dim == 3 and rb.dim == 1: sp = [mul(A0[i], B0[0]) for i in range(3)]
                else: sp = [mul(A0[0], B0[0])]
            return z3.And([(tr.val(tobv(cellv(i), 64)) - sp[i]) % P == 0 for i in range(out.dim)])
        if any(cellv(i) is None for i in range(out.dim)): return None
        r = smt.prove(goal, assumptions=[lambda tr: z3.And([tr.val(x) < P for x in syms.values()])], timeout=8 if concv else 25, variants=NV if not concv else None)
        if r.status == 'sat':
            vals = {(g, i): core.limbval(r.model, '%s%d' % (g, i)) for (g, i) in pat}; vals.update(concv)
            return dict(a=lambda k, i: vals.get(('a', i), 0) if k == 0 else 0, b=lambda k, i: vals.get(('b', i), 0) if k == 0 else 0, how='bit-precise sparse search (symbolic positions %s, fixed words %s)' % (list(pat), {('%s%d' % k_): hex(v_) for k_, v_ in concv.items()}))
    return None

class SparseCells(dict):
    """memory of an unsized array for the interpreter's concrete mode: unwritten cells hold a deterministic pseudo-random word"""
    def __init__(s, seed, canonical=True): dict.__init__(s); s.seed = seed; s.canonical = canonical
    def default(s, k):
        v = (k * 0x9E3779B97F4A7C15 + s.seed * 0xD1B54A32D192ED03 + 12345) & (2**64 - 1); v ^= v >> 29; v = (v * 0xBF58476D1CE4E5B9) & (2**64 - 1)
        return v % P
    def get(s, k, d=None):
        if dict.__contains__(s, k): return dict.__getitem__(s, k)
        return s.default(k)

def sparse_run(ctx, m, info, cfg, cs, rng):
    """concrete re-execution in the interpreter with unsized sparse arrays: any 64-bit strides (index arithmetic wraps like the C code's)"""
    n = info['n']; M64 = 2**64
    def sx(v): v &= M64 - 1; return v - M64 if v >> 63 else v
    w = core.world(ctx.bdir, ['cen_' + cfg, 'gbf_' + cfg]); w.reset(); w.hooks = dict(w.base_hooks); it = Interp(w)
    args = {}; arrs = {}; strides = {}
    def stride_for(r):
        if r.stride is None: return None
        nm, kind, bits = r.stride
        if kind == 'scalar':
            v = cs.get(nm, 3 if r.dim == 3 else 1) & ((1 << bits) - 1); args[nm] = v; return ('scalar', v)
        vs = [cs.get('%s_%d' % (nm, k), 3 * k) & (M64 - 1) for k in range(n)]; args[nm] = Ptr(core.obj_words(nm, vs, 8), 0); return ('list', vs)
    def cell(r, st, k, i):
        if r.const: return i
        if st is None: return k * (3 if r.dim == 3 else 1) + i
        if st[0] == 'scalar': return sx(sx(k * st[1]) + i)
        return sx(st[1][k] + i)
    def operand(g, r, is_out=False):
        st = stride_for(r); strides[g] = st
        if r.kind == 'arr':
            o = Obj(None, g, 64, 'arg'); o.cells = SparseCells({'a': 1, 'b': 2, 'out': 3}[g]); arrs[g] = o; args[r.names[0]] = Ptr(o, 0)
            return [[o.cells.get(cell(r, st, k, i)) for i in range(r.dim)] for k in range(n)]
        if r.kind == 'bcast':
            v = rng.getrandbits(64) % P; args[r.names[0]] = v; return [[v] for k in range(n)]
        if r.kind == 'reg':
            vs = [rng.getrandbits(64) % P for k in range(n)]; o = core.obj_words(g, vs, 8 * n); arrs[g] = o; args[r.names[0]] = Ptr(o, 0); return [[v] for v in vs]
        if r.kind == 'planar':
            vs = [[rng.getrandbits(64) % P for i in range(3)] for k in range(n)]; o = core.obj_words(g, [vs[k][i] for i in range(3) for k in range(n)], 8 * n); arrs[g] = o; args[r.names[0]] = Ptr(o, 0); return vs
        vs = [[rng.getrandbits(64) % P for i in range(3)] for k in range(n)]; arrs[g] = []
        for i in range(3):
            if r.byval and not is_out: args[r.names[i]] = [vs[k][i] for k in range(n)]
            else: o = core.obj_words('%s%d' % (g, i), [vs[k][i] for k in range(n)], 8 * n); arrs[g].append(o); args[r.names[i]] = Ptr(o, 0)
        return vs
    A = operand('a', info['a']); B = operand('b', info['b']) if info['b'] else None; operand('out', info['out'], True)
    if info['aux'] is not None:
        ax = info['aux']
        if ax.kind == 'planar3':
            for i in range(3): args[ax.names[i]] = [[(B[k][0] + B[k][1]) % P, (B[k][0] + B[k][2]) % P, (B[k][1] + B[k][2]) % P][i] for k in range(n)]
        else: args[ax.names[0]] = Ptr(core.obj_words('aux', [(B[0][0] + B[0][1]) % P, (B[0][0] + B[0][2]) % P, (B[0][1] + B[0][2]) % P], 8), 0)
    it.call('@' + m['mangled'], [args[nm] for nm, ty in info['params']])
    pr = Run.__new__(Run); pr.info = info; pr.n = n; spec = Run.spec(pr, A, B); out = info['out']; st = strides.get('out'); det = None
    if out.kind == 'arr':
        o = arrs['out']; exp = {}
        for k in range(n):
            for i in range(out.dim): exp[cell(out, st, k, i)] = spec[k][i] % P
        for c in set(exp) | set(dict.keys(o.cells)):
            g = o.cells.get(c); e = exp.get(c, o.cells.default(c))
            if not is_c(g) or g % P != e % P: det = 'output element %d = %s, expected %#x' % (c, hex(g) if is_c(g) else g, e); break
    else:
        for k in range(n):
            for i in range(out.dim):
                g = arrs['out'].cells.get(k) if out.kind == 'reg' else (arrs['out'].cells.get(i * n + k) if out.kind == 'planar' else arrs['out'][i].cells.get(k))
                if not is_c(g) or g % P != spec[k][i] % P: det = 'lane %d coefficient %d = %s, expected %d' % (k, i, g, spec[k][i] % P); break
            if det: break
    for g in ('a', 'b'):
        if isinstance(arrs.get(g), Obj) and isinstance(arrs[g].cells, SparseCells) and len(dict.keys(arrs[g].cells)): det = det or 'input array %s was written' % g
    rep = dict(mangled=m['mangled'], cfg=cfg, sparse=True, strides={k: (list(v[1]) if v and v[0] == 'list' else (v[1] if v else None)) for k, v in strides.items()})
    return (det is not None, (det or 'agrees') + ' [interpreter, concrete, sparse arrays, strides %s]' % rep['strides'], rep)

SZ = 96
def guard_buf(nwords_before_guard):
    """uint64 array whose element [nwords_before_guard - 1] is the last word before an inaccessible page (reads past the designated extent fault)"""
    import mmap
    libc = ctypes.CDLL(None, use_errno=True); PG = mmap.PAGESIZE
    npages = (8 * nwords_before_guard + PG - 1) // PG + 1
    libc.mmap.restype = ctypes.c_void_p; libc.mmap.argtypes = [ctypes.c_void_p, ctypes.c_size_t, ctypes.c_int, ctypes.c_int, ctypes.c_int, ctypes.c_long]
    base = libc.mmap(None, (npages + 1) * PG, 3, 0x22, -1, 0)       # PROT_READ|PROT_WRITE, MAP_PRIVATE|MAP_ANONYMOUS
    if base in (None, ctypes.c_void_p(-1).value): raise OSError('mmap failed')
    libc.mprotect.argtypes = [ctypes.c_void_p, ctypes.c_size_t, ctypes.c_int]
    if libc.mprotect(base + npages * PG, PG, 0) != 0: raise OSError('mprotect failed')
    start = base + npages * PG - 8 * nwords_before_guard
    return (ctypes.c_uint64 * nwords_before_guard).from_address(start)

def native_run(ctx, m, info, cfg, cs, rng, fill=None, guard=None):
    """guard = 'a' / 'b': that input operand is placed so that its last designated element is the last word before an inaccessible page and the
       call runs in a forked child: a fault is a confirmed read outside the designated positions"""
    lib = core.native(ctx.bdir, cfg)
    def val(g, k=0, i=0):
        if fill and g in fill:
            f = fill[g]
            return (f(k, i) if callable(f) else f) & (2**64 - 1)
        return rng.getrandbits(64) % P
    n = info['n']; U = ctypes.c_uint64
    def stride_for(r, key):
        if r.stride is None: return None
        nm, kind, bits = r.stride; lim = (SZ - 3) // max(1, n - 1)
        if kind == 'scalar':
            if isinstance(cs, dict):
                v = cs.get(nm)
                if v is None or v > lim: return 'skip'
                return ('scalar', v)
            return ('scalar', {'alt': 5, 'perm': 0}.get(cs, 3 if r.dim == 3 else 1) if cs != None else (4 if r.dim == 3 else 2))
        if isinstance(cs, dict):
            vs = [cs.get('%s_%d' % (nm, k)) for k in range(n)]
            if any(v is None or v > SZ - 3 for v in vs): return 'skip'
            return ('list', vs)
        if cs == 'perm': vs = [3 * ((k * 5 + 2) % n) for k in range(n)]
        elif cs == 'alt': vs = [3 * (n - 1 - k) + (0 if r.dim == 3 else 0) for k in range(n)]
        else: vs = [4 * k + 1 for k in range(n)]
        return ('list', vs)
    bufs = {}; args = {}; strides = {}
    vals = {}
    def mkarr(g, fill=True):   # (the parameter shadows the outer fill on purpose: True = input array)
        b = core.abuf(SZ, 64)
        for i in range(SZ): b[i] = val(g, i // 3, i % 3) if fill else 0x0D0D0D0D0D0D0D0D
        bufs[g] = b; return b
    def off(r, st, k, i):
        if r.const: return i
        if st is None: return k * (3 if r.dim == 3 else 1) + i
        if st[0] == 'scalar': return k * st[1] + i
        return st[1][k] + i
    def operand(g, r, is_out=False):
        st = stride_for(r, g)
        if st == 'skip': raise KeyError('skip')
        strides[g] = st
        if r.stride is not None:
            nm, kind, bits = r.stride
            if kind == 'scalar': args[nm] = (ctypes.c_uint32 if bits == 32 else U)(st[1])
            else: lb = (U * n)(*st[1]); bufs[nm] = lb; args[nm] = lb
        if r.kind == 'arr':
            if guard == g and not is_out:
                D = max(off(r, st, k, i) for k in range(n) for i in range(r.dim)) + 1
                b = guard_buf(D)
                for i in range(D): b[i] = val(g, i // 3, i % 3)
                bufs[g] = b; args[r.names[0]] = b
            else:
                b = mkarr(g, not is_out); args[r.names[0]] = b
            return [[b[off(r, st, k, i)] for i in range(r.dim)] for k in range(n)]
        if r.kind == 'bcast':
            v = val(g); args[r.names[0]] = U(v); return [[v] for k in range(n)]
        if r.kind == 'reg':
            vs = [val(g, k, 0) for k in range(n)]; b = kern.u64buf(vs); bufs[g] = b; args[r.names[0]] = b; return [[v] for v in vs]
        if r.kind == 'planar':
            vs = [[val(g, k, i) for i in range(3)] for k in range(n)]; b = kern.u64buf([vs[k][i] for i in range(3) for k in range(n)]); bufs[g] = b; args[r.names[0]] = b; return vs
        if r.kind == 'planar3':
            vs = [[val(g, k, i) for i in range(3)] for k in range(n)]; bufs[g] = []
            for i in range(3):
                b = kern.u64buf([vs[k][i] for k in range(n)]); bufs[g].append(b)
                if r.byval and not is_out:
                    VT = (ctypes.c_uint64 * n); args[r.names[i]] = ('byval', [vs[k][i] for k in range(n)])
                else: args[r.names[i]] = b
            return vs
    try:
        A = operand('a', info['a']); B = operand('b', info['b']) if info['b'] else None
        operand('out', info['out'], True)
    except KeyError: return None
    al = ALIAS[0]
    if al and al[0] == 'inplace':
        r = info[al[1]]; o = info['out']
        if o.kind in ('reg', 'planar'): args[o.names[0]] = args[r.names[0]]; bufs['out'] = bufs[al[1]]
        else:
            for i in range(3): args[o.names[i]] = args[r.names[i]]
            bufs['out'] = bufs[al[1]]
    if al and al[0] == 'scalar-in-out':
        g, j = al[1], al[2]; r = info[g]; o = info['out']; st_o = strides.get('out')
        pos = off(o, st_o, j, 0); ob_ = bufs['out']; v0 = val(g) % P; ob_[pos] = v0
        args[r.names[0]] = ctypes.cast(ctypes.byref(ob_, 8 * pos), ctypes.POINTER(ctypes.c_uint64))
        if g == 'a': A = [[v0] for k in range(n)]
        else: B = [[v0] for k in range(n)]
    if info['aux'] is not None:
        ax = info['aux']
        if ax.kind == 'planar3':
            for i in range(3): args[ax.names[i]] = ('byval', [[(B[k][0] + B[k][1]) % P, (B[k][0] + B[k][2]) % P, (B[k][1] + B[k][2]) % P][i] for k in range(n)])
        else: args[ax.names[0]] = kern.u64buf([(B[0][0] + B[0][1]) % P, (B[0][0] + B[0][2]) % P, (B[0][1] + B[0][2]) % P])
    snap = {g: list(b) for g, b in bufs.items() if g in ('a', 'b') and not isinstance(b, list)}
    how = 'native'
    if any(isinstance(v, tuple) for v in args.values()) or lib is None:
        # by-value vector arguments cannot be passed through ctypes (or no AVX512 CPU): concrete re-execution in the interpreter
        how = 'interpreter (concrete)'
        w = core.world(ctx.bdir, ['cen_' + cfg, 'gbf_' + cfg]); w.reset(); w.hooks = dict(w.base_hooks); it = Interp(w)
        objmap = {}; iargs = []
        for nm, ty in info['params']:
            v = args[nm]
            if isinstance(v, tuple): iargs.append(list(v[1]))
            elif isinstance(v, (ctypes.c_uint64, ctypes.c_uint32)): iargs.append(v.value)
            else:
                o = core.obj_words(nm, [int(x) for x in v], 64); objmap[nm] = (o, v); iargs.append(Ptr(o, 0))
        it.call('@' + m['mangled'], iargs)
        for nm, (o, v) in objmap.items():
            for i in range(len(v)):
                c = o.cells.get(i)
                if is_c(c): v[i] = c
    elif guard is not None:
        f = getattr(lib, m['mangled']); f.restype = None
        res = core.forked(lambda: (f(*[args[nm] for nm, ty in info['params']]), 0)[1], timeout=30)
        rep = dict(mangled=m['mangled'], cfg=cfg, guard=guard, strides={k: (v if v is None else [v[0], v[1]]) for k, v in strides.items()})
        if res[0] == 'signal': return True, 'native call with operand %s ending at an inaccessible page (strides %s) is killed by signal %d: it reads past the last designated element' % (guard, strides.get(guard), res[1]), rep
        return False, 'no fault', rep
    else:
        f = getattr(lib, m['mangled']); f.restype = None
        f(*[args[nm] for nm, ty in info['params']])
    # expected
    class PyRun: pass
    pr = Run.__new__(Run); pr.info = info; pr.n = n
    Ai = [[x for x in row] for row in A]; Bi = [[x for x in row] for row in B] if B else None
    spec = Run.spec(pr, Ai, Bi); out = info['out']; st = strides.get('out')
    det = None
    if out.kind == 'arr':
        exp = [0x0D0D0D0D0D0D0D0D] * SZ
        for k in range(n):
            for i in range(out.dim): exp[off(out, st, k, i)] = spec[k][i] % P
        got = list(bufs['out'])
        for i in range(SZ):
            if (got[i] % P if exp[i] != 0x0D0D0D0D0D0D0D0D else got[i]) != exp[i]: det = 'output word %d = %#x, expected %#x' % (i, got[i], exp[i]); break
    else:
        for k in range(n):
            for i in range(out.dim):
                g = bufs['out'][k] if out.kind == 'reg' else (bufs['out'][i * n + k] if out.kind == 'planar' else bufs['out'][i][k])
                if g % P != spec[k][i] % P: det = 'lane %d coefficient %d = %d, expected %d' % (k, i, g % P, spec[k][i] % P); break
            if det: break
    for g, s0 in snap.items():
        if list(bufs[g]) != s0: det = det or 'input array %s was modified' % g
    rep = dict(mangled=m['mangled'], cfg=cfg, strides={k: (list(v[1]) if v and v[0] == 'list' else (v[1] if v else None)) for k, v in strides.items()})
    return (det is not None, (det or 'agrees') + ' [%s]' % how, rep)

UNCOVERED = []
def obligations_for(ctx, cls):
    obs = []; del UNCOVERED[:]
    ms = overloads(ctx, cls, 'avx512'); seen = set()
    for m in ms:
        if m['mangled'] in seen: continue
        seen.add(m['mangled'])
        if not m['defined']: continue
        cfg = 'avx512' if m['name'].endswith('avx512') else 'avx2'
        try: infer(m)
        except Unsupported as e:
            UNCOVERED.append(dict(overload='%s::%s' % (m['cls'], m['name']), line=m['line'], reason=str(e))); continue
        obs.append(Ob('%s@%s' % (m['name'], m['line']), check_overload, (m, cfg), weight=3 if 'mul' in m['name'] else 1))
        try: avs = alias_variants(infer(m))
        except Unsupported: avs = []
        for av in avs:
            obs.append(Ob('%s@%s/%s' % (m['name'], m['line'], '-'.join(str(x) for x in av)), check_overload, (m, cfg, av), weight=3 if 'mul' in m['name'] else 1))
    return obs, ms
