# regenerates section 8.5 of DESIGN.md (seeded changes) from seeded/*/meta.json:  python3-vt -m gv.seedtable
import json, glob, os, re
V = os.path.dirname(os.path.dirname(os.path.abspath(__file__)))
def main():
    rows = []
    for d in sorted(glob.glob(os.path.join(V, 'seeded', '*', 'meta.json'))):
        m = json.load(open(d)); c = m['confirmed_by_me']
        rows.append('| `%s` | %s | %s | %s | %s |' % (m['name'], m['breaks_property'], m['needs_to_manifest'].replace('|', '/'), c['checks_run_with_patch_applied_to_repo'].replace('|', '/'), (c.get('notes') or '').replace('|', '/')))
    text = '''### 8.5 Seeded changes (independent sub-agents) and which checks catch them

%d changes written by %s sub-agents that were given only the text of one property and a scratch worktree (round 1: two per property for all
20 properties; round 2: all 20 properties again with a request for larger shapes, unusual parameter combinations, cooperating edits at two
sites, narrow numeric windows other than non-canonical operands, or AVX512-only branches; round 3: twelve properties once more with a request for
something different from both - placement/aliasing of the caller's buffers, thread counts that do not divide the work, sizes above 2^16,
offset patterns, rarely used overloads, or edits that keep every value right but touch an element outside the designated positions; round 4: the eight
properties that had only four changes so far - C01, C04, C10, C11, C14, C15, C18, C20 - with the round-2 request; round 5: C03, C08, C12, C16 once more).  Each was confirmed by `seedtest.sh` in a fresh worktree (applies to HEAD, the repository suite passes 30/30 with it,
its demonstration fails with it and passes without it), then applied to /repo, the checks were run, and /repo was restored.  All are archived
under `seeded/<name>/` (patch.diff, demonstration, build.sh, README.txt, meta.json); `seedcheck.sh` re-runs them all as a regression (every
one must give exit 1 with a VIOLATION line, except the two changes documented as NOT CAUGHT, which no property covers: concurrent
application threads inside a conversion function, and a call made during static initialisation).  The notes column records what the first version of a check did when it did not catch the
change and what was strengthened; none of these changes is ever committed to /repo.

| seeded change | breaks | needs to manifest | caught by (quick tier) | notes |
|---|---|---|---|---|
%s

Lessons that changed the framework: (1) an *inconclusive* answer (exit 2) was the typical first reaction to changes that replace a general
kernel by one with an operand assumption, manipulate field words at bit level, or branch on data: the remedy was always the same pattern -
keep the run going with a recorded "assumption not implied" event, ask the solver bit-precisely *at kernel level* for operand words that break
the callee, lift them to inputs (operand fills, first-half inversion of the permutation, identity-like coefficient patterns, sparse symbolic
positions) and confirm natively; (2) the two outright misses were a state family fixed by hand (C19: now a computed closure) and a parameter
left at a single value (nThreads in C03, nblock in the extendPol race classes); (3) sizes matter: n = 128 with nphase = 3 and inputs longer
than 65536 elements are now in the quick tier because two round-2 changes needed exactly those; column counts 5 and 7 (a column-block remainder
of two needs five columns) and size classes derived from the comparison constants found in the code (batchInverse > 1024) came from the second
half of round 2; (4) histories in C19 now include calls with a caller-provided buffer; (5) a check must never turn "the code is organised
differently from what I expect" into a verdict: the structural expectations of C09 (one inversion, inverted value = norm), C10 (textbook Euclid
loop, forwarding wrappers) and C15 (which string reaches GMP) now lead to a structure-independent argument or to native differential runs, and
are violations only when a concrete call misbehaves (section 8.6); (6) round 3 showed three blind spots of a different kind and each got a
general remedy rather than a special case: loop-free index helpers are decided for *all* widths (the bit reversal is proved for every width
1..32, which reaches transforms of 2^17..2^32 points that no executed class can), in-place uses that a signature allows (result registers =
operand registers; a by-reference scalar inside the result array) are obligations of their own, and a read outside the designated positions -
which changes no value - is confirmed by running the native function with the operand ending at an inaccessible page.  The second half of
round 3 repeated the lesson for other interfaces: placements of the caller's buffers are part of "every input" (linear_hash with the digest
inside the input, batchInverse in place, lane and matrix kernels whose result register is an operand register are obligations now), the
address of a buffer is an unknown multiple of its alignment (code that tests `p & 31` forks), and blocks that outlive the destructor are
notes, not violations (no property forbids a process-lifetime cache; the change that hid state in a function-local static is caught by the
values it produces on the next call).  Round 4 (16 changes) found two gaps, both closed in general form: a change that routed `fromScalar` through
GMP entry points the stub layer did not have (`mpz_fits_slong_p`, `mpz_tdiv_ui`) ended inconclusive (exit 2) - the contract layer now has the
fits/tdiv/cdiv/abs/cmpabs/addmul family, and the interpreter the `addcarry/subborrow`, saturating and `abs` intrinsics a rewrite of the carry
chains would use; and a change that swaps `nphase` and `nblock` on the way from `INTT` to `NTT` keeps every value right and only overruns a
caller buffer that is as small as the one the library allocates for itself - the harness used to hand over `size*ncols` words; it still does
(so the run never faults) but now asks the solver, per effective block count the path condition admits, whether the touched extent fits
`size*ceil(ncols/nblock)` words (`min_buffer_check` in `gv/props/ntt.py`, reported as `oob-write` so that C03/C04 and C18 both see it).  Round 5 (8 changes) found three more,
all first answered by exit 2 or exit 0 rather than by a false alarm: (a) a scatter rewritten component by component writes the same values to
the same positions in a different order, which differs from the scalar loop only for overlapping output strides - the final-memory comparison
that handles "write logs differ" had never run on the unchanged tree and crashed on an unconverted value (fixed; it now proves or refutes the
equality of the two final memories at a fresh symbolic index); (b) a Karatsuba step switched to a `_b_c` kernel fails only when the product of
*one* coefficient pair is non-canonical and the product of *another* is small - kernel-level solver witnesses are now also placed per
coefficient position with the consumer's other operand next to them; (c) an `if` clause on a parallel region (`__kmpc_serialized_parallel`)
was unknown to the OpenMP model, and a race behind a level-size threshold of 64 needs a tree of at least 128 rows: the stubs exist now and C12
analyses a 256-row tree (levels of 128 and 64 pairs) for every builder.
''' % (len(rows), 'sixty-four', '\n'.join(rows))
    p = os.path.join(V, 'DESIGN.md'); s = open(p).read()
    i = s.find('### 8.5 Seeded changes'); j = s.find('### 8.6 ')
    tail = s[j:] if j >= 0 else ''
    if i >= 0: s = s[:i].rstrip() + '\n\n'
    elif j >= 0: s = s[:j].rstrip() + '\n\n'
    open(p, 'w').write(s.rstrip() + '\n\n' + text.rstrip() + '\n\n' + tail)
if __name__ == '__main__': main()
