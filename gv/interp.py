# Symbolic interpreter over llparse modules.
#  values: python int (concrete) | z3 BitVec | z3 Bool (symbolic i1) | FV (field word) | Half | Ptr | FnPtr | POISON | float | list (vector/aggregate)
#  memory: objects of 8-byte cells (bounded) or UF + write log (unbounded, UObj)
#  control: symbolic branches fork by re-execution with a decision prefix; concretisation by solver enumeration
import z3, re, sys
from .llparse import *

P = 2**64 - 2**32 + 1
sys.setrecursionlimit(200000)

def is_c(x): return isinstance(x, int)
def bvv(v, w): return z3.BitVecVal(v, w)
def mask(w): return (1 << w) - 1
def tobv(x, w):
    if isinstance(x, bool): x = int(x)
    if is_c(x): return bvv(x & mask(w), w)
    if z3.is_bool(x): return z3.If(x, bvv(1, w), bvv(0, w))
    return x
def tobool(x):
    if is_c(x): return z3.BoolVal(bool(x))
    if z3.is_bool(x): return x
    return x == bvv(1, x.size())

class Violation(Exception):
    def __init__(s, kind, msg=''): Exception.__init__(s, '%s: %s' % (kind, msg)); s.kind = kind; s.msg = msg
class Unsupported(Exception): pass
class FieldWordOp(Unsupported):
    """a bit-level operation met a field word (F mode): the enclosing function needs a contract (see autosum.py)"""
class LoopCut(Exception):
    """control returned to a cut loop header; carries the back-edge phi values"""
    def __init__(s, vals): Exception.__init__(s, 'loop cut'); s.vals = vals
class Terminated(Exception):
    def __init__(s, kind, msg=''): Exception.__init__(s, '%s %s' % (kind, msg)); s.kind = kind; s.msg = msg

class Obj:
    cnt = 0
    def __init__(s, size, name='', align=8, kind='arg'):
        Obj.cnt += 1; s.id = Obj.cnt; s.size = size; s.name = name; s.cells = {}; s.align = align; s.kind = kind; s.freed = False
    def __repr__(s): return 'obj%d(%s,%s)' % (s.id, s.name, s.size)
class UObj(Obj):
    """unbounded object: initial contents an uninterpreted function of the byte offset, ordered write log"""
    def __init__(s, name, sort=None):
        Obj.__init__(s, None, name, 64, 'unbounded'); s.A0 = z3.Function('A0_' + name, z3.BitVecSort(64), sort or z3.IntSort())
        s.log = []; s.reads = []
    def read_at(s, off):
        v = s.A0(off)
        for (o, val) in s.log: v = z3.If(o == off, val, v)
        return v
class Ptr:
    __slots__ = ('obj', 'off')
    def __init__(s, obj, off): s.obj = obj; s.off = off
    def __repr__(s): return '&%r+%r' % (s.obj, s.off)
class FnPtr:
    def __init__(s, name): s.name = name
class _Poison:
    def __repr__(s): return 'POISON'
POISON = _Poison()
class Half:
    """opaque 32-bit half of a field word (clang's <8 x i32> view used by transposes)"""
    __slots__ = ('v', 'i')
    def __init__(s, v, i): s.v = v; s.i = i
class FV:
    """field word: cls = some integer (or algebra object) in the word's residue class mod p; rep = exact word if known"""
    __slots__ = ('cls', 'rep', 'ub')
    def __init__(s, cls, rep=None, ub=None): s.cls = cls; s.rep = rep; s.ub = ub     # ub: known upper bound of the word's integer value (None: 2^64-1)
    def __repr__(s): return 'FV(%s)' % (s.cls,)
NULL = Ptr(None, 0)
AUTOSUM = [None]   # the autosum module once F mode is in use (set by fmode.install_scalar)
FALG = [None]      # field algebra of the current F-mode run (set by fmode.install_scalar)

def split64(c):
    if c is POISON: return [POISON, POISON]
    if is_c(c): return [c & mask(32), c >> 32]
    if z3.is_expr(c): return [z3.Extract(31, 0, c), z3.Extract(63, 32, c)]
    return [Half(c, 0), Half(c, 1)]
def join64(lo, hi):
    if lo is POISON or hi is POISON: return POISON
    if isinstance(lo, Half) or isinstance(hi, Half):
        if isinstance(lo, Half) and isinstance(hi, Half) and lo.v is hi.v and lo.i == 0 and hi.i == 1: return lo.v
        raise FieldWordOp('field word halves recombined inconsistently')
    if is_c(lo) and is_c(hi): return lo | (hi << 32)
    return z3.Concat(tobv(hi, 32), tobv(lo, 32))

def binop(op, a, b, w):
    if a is POISON or b is POISON: return POISON
    if isinstance(a, Ptr) or isinstance(b, Ptr):
        # integer arithmetic on pointers that went through ptrtoint: differences inside one object and pointer +/- integer keep their meaning
        if op == 'sub' and isinstance(a, Ptr) and isinstance(b, Ptr):
            if a.obj is b.obj: return binop('sub', a.off, b.off, w)
            raise Unsupported('difference of pointers into different objects')
        if op in ('add', 'sub') and isinstance(a, Ptr) and not isinstance(b, (Ptr, FV, Half, float)): return Ptr(a.obj, binop(op, a.off, b, w))
        if op == 'add' and isinstance(b, Ptr) and not isinstance(a, (Ptr, FV, Half, float)): return Ptr(b.obj, binop('add', b.off, a, w))
        if op in ('and', 'urem'):
            # alignment test of an address (p & 31, p % 32): the object's base address is an arbitrary multiple of its alignment, so the low bits
            # are (K·align + offset) & mask with K an unconstrained word per object; the run then forks on the outcome of the comparison
            p_, m_ = (a, b) if isinstance(a, Ptr) else (b, a)
            if is_c(m_) and p_.obj is not None:
                mk_ = m_ if op == 'and' else m_ - 1
                if op == 'urem' and (m_ == 0 or m_ & (m_ - 1)): raise Unsupported('address modulo a non-power of two')
                if mk_ >= 0 and (mk_ & (mk_ + 1)) == 0 and mk_ < 4096:
                    al = max(1, int(getattr(p_.obj, 'align', 8) or 8))
                    if not hasattr(p_.obj, 'base_sym'): p_.obj.base_sym = z3.BitVec('addrk_%s_%d' % (str(p_.obj.name)[:20], p_.obj.id), 64)
                    base = p_.obj.base_sym * bvv(al, 64)
                    return z3.simplify((base + tobv(p_.off, 64)) & bvv(mk_, 64))
        raise Unsupported('integer operation %s on a pointer' % op)
    if isinstance(a, float) or isinstance(b, float):
        return {'fadd': lambda: a + b, 'fsub': lambda: a - b, 'fmul': lambda: a * b, 'fdiv': lambda: a / b}[op]()
    if isinstance(a, (FV, Half)) or isinstance(b, (FV, Half)):
        if op == 'and':
            x, m = (a, b) if isinstance(a, (FV, Half)) else (b, a)
            mw = 32 if isinstance(x, Half) else w
            if is_c(m) and m == mask(mw): return x
            if is_c(m) and m == 0: return 0
        if op == 'or':
            x, m = (a, b) if isinstance(a, (FV, Half)) else (b, a)
            if is_c(m) and m == 0: return x
        if op == 'add' and w == 64 and FALG[0] is not None:
            # integer addition of two words with known bounds that cannot wrap is the field addition of their classes
            ua = a.ub if isinstance(a, FV) else (a if is_c(a) else None); ub_ = b.ub if isinstance(b, FV) else (b if is_c(b) else None)
            if ua is not None and ub_ is not None and ua + ub_ < (1 << 64):
                ca = a.cls if isinstance(a, FV) else a; cb = b.cls if isinstance(b, FV) else b
                return FV(FALG[0].add(ca, cb), ub=ua + ub_)
        raise FieldWordOp('bit-level op %s on a field word' % op)
    if is_c(a) and is_c(b):
        m = mask(w)
        if op == 'add': return (a + b) & m
        if op == 'sub': return (a - b) & m
        if op == 'mul': return (a * b) & m
        if op == 'and': return a & b
        if op == 'or': return a | b
        if op == 'xor': return a ^ b
        if op == 'shl': return (a << b) & m if b < w else POISON
        if op == 'lshr': return a >> b if b < w else POISON
        if op == 'ashr': return ((a - (1 << w) if a >> (w - 1) else a) >> b) & m if b < w else POISON
        if op == 'udiv':
            if b == 0: raise Violation('ub', 'division by zero')
            return a // b
        if op == 'urem':
            if b == 0: raise Violation('ub', 'division by zero')
            return a % b
        if op in ('sdiv', 'srem'):
            if b == 0: raise Violation('ub', 'division by zero')
            sa = a - (1 << w) if a >> (w - 1) else a; sb = b - (1 << w) if b >> (w - 1) else b
            q = abs(sa) // abs(sb) * (1 if (sa < 0) == (sb < 0) else -1)
            return (q if op == 'sdiv' else sa - q * sb) & m
        raise Unsupported('binop ' + op)
    if w == 1 and (z3.is_bool(a) or z3.is_bool(b) or is_c(a) or is_c(b)) and not (z3.is_bv(a) or z3.is_bv(b)):
        A = tobool(a); B = tobool(b)
        if op == 'and': return z3.And(A, B)
        if op == 'or': return z3.Or(A, B)
        if op == 'xor': return z3.Xor(A, B)
        raise Unsupported('i1 ' + op)
    if op == 'and':
        if is_c(b) and b == mask(w): return a
        if is_c(a) and a == mask(w): return b
        if (is_c(b) and b == 0) or (is_c(a) and a == 0): return 0
    if op in ('or', 'xor', 'add'):
        if is_c(b) and b == 0: return a
        if is_c(a) and a == 0: return b
    A = tobv(a, w); B = tobv(b, w)
    return {'add': lambda: A + B, 'sub': lambda: A - B, 'mul': lambda: A * B, 'and': lambda: A & B, 'or': lambda: A | B, 'xor': lambda: A ^ B,
            'shl': lambda: A << B, 'lshr': lambda: z3.LShR(A, B), 'ashr': lambda: A >> B, 'udiv': lambda: z3.UDiv(A, B), 'urem': lambda: z3.URem(A, B),
            'sdiv': lambda: A / B, 'srem': lambda: z3.SRem(A, B)}[op]()

def icmp(pred, a, b, w):
    if a is POISON or b is POISON: return POISON
    def sg(x): return x - (1 << w) if x >= (1 << (w - 1)) else x
    if is_c(a) and is_c(b):
        return int({'eq': a == b, 'ne': a != b, 'ult': a < b, 'ule': a <= b, 'ugt': a > b, 'uge': a >= b,
                    'slt': sg(a) < sg(b), 'sle': sg(a) <= sg(b), 'sgt': sg(a) > sg(b), 'sge': sg(a) >= sg(b)}[pred])
    if isinstance(a, (FV, Half)) or isinstance(b, (FV, Half)): raise FieldWordOp('comparison of a field word')
    A = tobv(a, w); B = tobv(b, w)
    return {'eq': lambda: A == B, 'ne': lambda: A != B, 'ult': lambda: z3.ULT(A, B), 'ule': lambda: z3.ULE(A, B), 'ugt': lambda: z3.UGT(A, B), 'uge': lambda: z3.UGE(A, B),
            'slt': lambda: A < B, 'sle': lambda: A <= B, 'sgt': lambda: A > B, 'sge': lambda: A >= B}[pred]()


class World:
    """modules + global memory; reset() restores the post-initialisation global state"""
    def __init__(s, mods):
        s.mods = mods; s.funcs = {}; s.types = {}; s.gobj = {}; s.hooks = {}; s.steps = 0; s.max_steps = 50_000_000
        s.skipped = []; s.events = []; s.heap = {}; s.race = False; s.acc = []; s.check_align = True; s.alloc_log = []
        for m in mods:
            for k, f in m.funcs.items():
                s.funcs.setdefault(k, f)
            s.types.update(m.types)
        for m in mods:
            for g, d in m.globals.items():
                if g in s.gobj and d['init'] is None: continue
                if g in s.gobj and s.gobj[g].cells: continue
                o = Obj(s.sizeof(d['ty']), g, d['align'] or 8, 'global'); s.gobj[g] = o; o.has_init = d['init'] is not None
        for m in mods:
            for g, d in m.globals.items():
                if d['init'] is not None and not s.gobj[g].cells:
                    try: s.store(Ptr(s.gobj[g], 0), d['ty'], s.const(d['ty'], d['init']))
                    except Exception as e: s.skipped.append(g)
        s._base = None
    def freeze(s):
        s._base = {g: dict(o.cells) for g, o in s.gobj.items()}
    def reset(s):
        for g, o in s.gobj.items(): o.cells = dict(s._base[g])
        s.steps = 0; s.events = []; s.heap = {}; s.race = False; s.acc = []; s.alloc_log = []
    # ---- layout
    def rty(s, t):
        while t.kind == 'named': t = s.types[t.name]
        return t
    def alignof(s, t):
        t = s.rty(t); k = t.kind
        if k == 'int': return max(1, min(8, 1 << ((t.bits + 7) // 8 - 1).bit_length())) if t.bits <= 64 else 16
        if k in ('ptr', 'double'): return 8
        if k == 'float': return 4
        if k == 'vec': return s.sizeof(t)
        if k == 'arr': return s.alignof(t.el)
        if k == 'struct': return 1 if t.packed else max([s.alignof(e) for e in t.els] or [1])
        raise Unsupported('alignof %r' % t)
    def sizeof(s, t):
        t = s.rty(t); k = t.kind
        if k == 'int':
            if t.bits <= 64: return max(1, 1 << ((t.bits + 7) // 8 - 1).bit_length())
            return 16
        if k in ('ptr', 'double'): return 8
        if k == 'float': return 4
        if k == 'vec': return t.n * s.sizeof(t.el) if s.rty(t.el).kind != 'int' or s.rty(t.el).bits >= 8 else (t.n * s.rty(t.el).bits + 7) // 8
        if k == 'arr': return t.n * s.sizeof(t.el)
        if k == 'struct':
            off = 0
            for e in t.els:
                if not t.packed: a = s.alignof(e); off = (off + a - 1) // a * a
                off += s.sizeof(e)
            if not t.packed:
                a = s.alignof(t); off = (off + a - 1) // a * a
            return off
        if k in ('opaque', 'func'): return 0
        raise Unsupported('sizeof %r' % t)
    def field_off(s, t, i):
        off = 0
        for j, e in enumerate(t.els):
            if not t.packed: a = s.alignof(e); off = (off + a - 1) // a * a
            if j == i: return off
            off += s.sizeof(e)
    # ---- constants
    def const(s, t, v, env=None):
        k, p = v; t = s.rty(t) if t is not None else None
        if k == 'int': return p & mask(t.bits) if t is not None and t.kind == 'int' else p
        if k == 'fp': return p
        if k == 'local': return env[p]
        if k == 'global':
            if p in s.gobj: return Ptr(s.gobj[p], 0)
            return FnPtr(p)
        if k == 'null': return NULL
        if k in ('undef', 'poison'):
            if t.kind == 'vec': return [POISON] * t.n
            if t.kind == 'struct': return [POISON] * len(t.els)
            if t.kind == 'arr': return [POISON] * t.n
            return POISON
        if k == 'zeroinitializer':
            if t.kind == 'int': return 0
            if t.kind == 'vec': return [s.const(t.el, v) for _ in range(t.n)]
            if t.kind == 'arr': return [s.const(t.el, v) for _ in range(t.n)]
            if t.kind == 'struct': return [s.const(e, v) for e in t.els]
            if t.kind == 'ptr': return NULL
            if t.kind in ('double', 'float'): return 0.0
        if k in ('cvec', 'carr', 'cstruct'): return [s.const(et, ev, env) for et, ev in p]
        if k == 'cstr':
            raw = p[2:-1]; b = []; i = 0
            while i < len(raw):
                if raw[i] == '\\': b.append(int(raw[i + 1:i + 3], 16)); i += 3
                else: b.append(ord(raw[i])); i += 1
            return b
        if k == 'ce_cast':
            op, (st, sv), dt = p; return s.const(st, sv, env)
        if k == 'ce_gep':
            bt, ops = p; base = s.const(ops[0][0], ops[0][1], env); return s.gep(bt, base, [s.const(a, b, env) for a, b in ops[1:]])
        raise Unsupported('const %r' % (v,))
    def gep(s, bt, base, idx):
        if isinstance(base, FnPtr): return base
        off = base.off; t = bt
        def sx(i): return i - (1 << 64) if is_c(i) and i >= (1 << 63) else i
        def addo(off, i, sz):
            if is_c(i) and is_c(off): return off + sx(i) * sz
            if is_c(i): return off + bvv((sx(i) * sz) & mask(64), 64)
            if isinstance(i, (FV, Half)): raise FieldWordOp('field word used as an index')
            if i.size() < 64: i = z3.SignExt(64 - i.size(), i)
            return tobv(off, 64) + i * bvv(sz, 64)
        first = True
        for i in idx:
            if first: off = addo(off, i, s.sizeof(t)); first = False; continue
            rt = s.rty(t)
            if rt.kind == 'struct': off = off + s.field_off(rt, i) if is_c(off) else off + bvv(s.field_off(rt, i), 64); t = rt.els[i]
            elif rt.kind in ('arr', 'vec'): off = addo(off, i, s.sizeof(rt.el)); t = rt.el
            else: raise Unsupported('gep into %r' % rt)
        return Ptr(base.obj, off)
    # ---- memory (cells of 8 bytes, little endian)
    def _check(s, p, n, kind):
        if p.obj is None: raise Violation('null-deref', '%s of %d bytes through a null pointer (+%r)' % (kind, n, p.off))
        if isinstance(p, FnPtr): raise Unsupported('access through function pointer')
        if p.obj.freed: raise Violation('use-after-free', '%s %r' % (kind, p))
        if p.obj.size is not None and not (0 <= p.off and p.off + n <= p.obj.size):
            raise Violation('oob-' + ('read' if kind == 'load' else 'write'), '%s of %d bytes at offset %d of %s (size %d)' % (kind, n, p.off, p.obj.name, p.obj.size))
    def load_bytes(s, p, n, ity=None):
        if isinstance(p.obj, UObj):
            if n % 8: raise Unsupported('sub-word access to unbounded object')
            out = []
            for k in range(n // 8):
                off = tobv(p.off, 64) + bvv(8 * k, 64) if not is_c(p.off) else bvv((p.off + 8 * k) & mask(64), 64)
                off = z3.simplify(off); p.obj.reads.append(off); out.append(s.uread(p.obj, off))
            return out
        if not is_c(p.off):
            if s.race:
                s.acc.append(('R', p.obj, p.off, n)); return [z3.FreshConst(z3.BitVecSort(64 if n >= 8 else n * 8), 'hv') for _ in range(max(1, n // 8))]
            if getattr(s, 'cur_it', None) is not None and not getattr(s, '_pinning', False):
                s._pinning = True
                try: p = s.cur_it.pin(p)
                finally: s._pinning = False
                return s.load_bytes(p, n, ity)
            raise Unsupported('load at symbolic offset of a bounded object')
        s._check(p, n, 'load')
        if s.race: s.acc.append(('R', p.obj, p.off, n))
        if n >= 8:
            if p.off % 8 or n % 8: raise Unsupported('unaligned wide access')
            out = []
            for c in range(p.off // 8, (p.off + n) // 8):
                v = p.obj.cells.get(c)
                if v is None:
                    if s.race: v = z3.FreshConst(z3.BitVecSort(64), 'hv')
                    else: raise Violation('uninit-read', 'read of never-written cell %d of %s' % (c, p.obj.name))
                out.append(v)
            return out
        c = p.off // 8; sh = (p.off % 8) * 8
        if sh + n * 8 > 64: raise Unsupported('cell-straddling access')
        v = p.obj.cells.get(c)
        if v is None:
            if s.race: return [z3.FreshConst(z3.BitVecSort(n * 8), 'hv')]
            raise Violation('uninit-read', 'read of never-written cell %d of %s' % (c, p.obj.name))
        if isinstance(v, (Ptr, FnPtr)): return [v]
        if isinstance(v, float): return [v]
        if isinstance(v, FV): raise FieldWordOp('sub-word read of a field word')
        if is_c(v): return [(v >> sh) & mask(n * 8)]
        return [z3.simplify(z3.Extract(sh + n * 8 - 1, sh, v))]
    def uread(s, o, off):
        v = o.read_at(off)
        return FV(v) if o.A0.range() == z3.IntSort() else v
    def store_bytes(s, p, n, vals):
        if isinstance(p.obj, UObj):
            if n % 8: raise Unsupported('sub-word access to unbounded object')
            for k, v in enumerate(vals):
                off = tobv(p.off, 64) + bvv(8 * k, 64) if not is_c(p.off) else bvv((p.off + 8 * k) & mask(64), 64)
                p.obj.log.append((z3.simplify(off), s.uval(p.obj, v)))
            return
        if not is_c(p.off):
            if s.race: s.acc.append(('W', p.obj, p.off, n)); return
            if getattr(s, 'cur_it', None) is not None and not getattr(s, '_pinning', False):
                s._pinning = True
                try: p = s.cur_it.pin(p)
                finally: s._pinning = False
                return s.store_bytes(p, n, vals)
            raise Unsupported('store at symbolic offset of a bounded object')
        s._check(p, n, 'store')
        if s.race: s.acc.append(('W', p.obj, p.off, n))
        if n >= 8:
            if p.off % 8 or n % 8: raise Unsupported('unaligned wide access')
            for k, c in enumerate(range(p.off // 8, (p.off + n) // 8)): p.obj.cells[c] = vals[k]
            return
        c = p.off // 8; sh = (p.off % 8) * 8; old = p.obj.cells.get(c, 0); v = vals[0]
        if z3.is_expr(v) and z3.is_bool(v): v = tobv(v, n * 8)
        if isinstance(old, (Ptr, FnPtr, FV, float)) or old is POISON: old = 0
        if v is POISON: v = 0
        if is_c(old) and is_c(v): p.obj.cells[c] = (old & ~(mask(n * 8) << sh)) | ((v & mask(n * 8)) << sh)
        else:
            o = tobv(old, 64); parts = []
            if sh + n * 8 < 64: parts.append(z3.Extract(63, sh + n * 8, o))
            parts.append(tobv(v, n * 8))
            if sh > 0: parts.append(z3.Extract(sh - 1, 0, o))
            p.obj.cells[c] = z3.simplify(z3.Concat(*parts)) if len(parts) > 1 else parts[0]
    def uval(s, o, v):
        if o.A0.range() == z3.IntSort():
            if isinstance(v, FV): return v.cls if not is_c(v.cls) else z3.IntVal(v.cls)
            if is_c(v): return z3.IntVal(v)
            raise Unsupported('bit-level word stored into a field array')
        return tobv(v, 64)
    def flat(s, t, v):
        t = s.rty(t)
        if t.kind in ('vec', 'arr'):
            es = s.sizeof(t.el)
            if es == 8: return [(x[0] if isinstance(x, list) else x) for x in v]
            if es == 4 and s.rty(t.el).kind in ('int', 'float'):
                return [join64(v[i], v[i + 1] if i + 1 < len(v) else 0) for i in range(0, len(v), 2)]
            if t.kind == 'arr': return sum((s.flat(t.el, x) for x in v), [])
            if es in (1, 2):
                per = 8 // es; out = []
                for i in range(0, len(v), per):
                    acc = 0
                    for j, b in enumerate(v[i:i + per]):
                        if not is_c(b): raise Unsupported('symbolic byte array')
                        acc |= b << (8 * es * j)
                    out.append(acc)
                return out
        if t.kind == 'struct':
            out = []
            for e, x in zip(t.els, v):
                if s.sizeof(e) != 8 and s.rty(e).kind not in ('struct', 'arr', 'vec'): raise Unsupported('flat struct %r' % t)
                out += s.flat(e, x) if s.rty(e).kind in ('struct', 'arr', 'vec') else [x]
            return out
        raise Unsupported('flat %r' % t)
    def store(s, p, t, v):
        n = s.sizeof(t); rt = s.rty(t)
        if rt.kind == 'int' and rt.bits > 64 and rt.bits % 64 == 0:
            # wide integers (i128) occupy consecutive 8-byte cells, least significant first
            k = rt.bits // 64
            if v is POISON: parts = [POISON] * k
            elif is_c(v): parts = [(v >> (64 * i)) & mask(64) for i in range(k)]
            elif isinstance(v, (FV, Half)): raise FieldWordOp('wide store of a field word')
            else: parts = [z3.simplify(z3.Extract(64 * i + 63, 64 * i, v)) for i in range(k)]
            s.store_bytes(p, n, parts); return
        if rt.kind in ('int', 'ptr', 'double', 'float'): s.store_bytes(p, n, [v])
        else:
            fl = s.flat(rt, v)
            if n < 8: s.store_bytes(p, n, fl)
            elif n % 8:  # odd-sized aggregates (strings): cell-wise, last partial
                for k, c in enumerate(fl):
                    m = min(8, n - 8 * k)
                    s.store_bytes(Ptr(p.obj, p.off + 8 * k), m, [c])
            else: s.store_bytes(p, n, fl)
    def load(s, p, t):
        n = s.sizeof(t); rt = s.rty(t); cells = s.load_bytes(p, n)
        if rt.kind == 'ptr':
            c = cells[0]
            if is_c(c) and c == 0: return NULL
            if isinstance(c, (Ptr, FnPtr)): return c
            if c is POISON: return POISON
            raise Unsupported('integer loaded as pointer')
        if rt.kind == 'int' and rt.bits > 64 and rt.bits % 64 == 0:
            if any(c is POISON for c in cells): return POISON
            if any(isinstance(c, (FV, Half)) for c in cells): raise FieldWordOp('wide load of field words')
            if all(is_c(c) for c in cells): return sum(c << (64 * i) for i, c in enumerate(cells))
            return z3.Concat(*[tobv(c, 64) for c in reversed(cells)])
        if rt.kind in ('int', 'double', 'float'):
            c = cells[0]
            if rt.kind == 'int' and isinstance(c, Ptr) and c.obj is None and c.off == 0: return 0
            return c
        if rt.kind == 'vec':
            es = s.sizeof(rt.el)
            if es == 8: return cells
            if es == 4:
                out = []
                for c in cells: out += split64(c)
                return out[:rt.n]
        raise Unsupported('load %r' % rt)
    def all_objs(s, roots=()):
        seen = set(); out = []
        def visit(o):
            if o is None or id(o) in seen: return
            seen.add(id(o)); out.append(o)
            for c in o.cells.values():
                if isinstance(c, Ptr): visit(c.obj)
        for o in s.gobj.values(): visit(o)
        for o in roots: visit(o)
        return out


QSTAT = [0, 0.0]     # path-feasibility / concretisation queries issued by the executor itself: [count, seconds]
def _qcheck(sv):
    import time
    t0 = time.time(); r = sv.check(); QSTAT[0] += 1; QSTAT[1] += time.time() - t0
    return r

class Interp:
    def __init__(s, world, decisions=None, solver=None):
        s.w = world; world.cur_it = s; s.calls = 0; s.pc = []; s.decisions = list(decisions or []); s.dpos = 0; s.worklist = []
        s.solver = solver; s.asm = None; s.depth = 0; s.conc_cap = 64; s.trace = None; s.loopcut = {}
        from . import x86asm
        s.asm = x86asm.X86()
    # ---- forking
    def _solver(s):
        if s.solver is None: s.solver = z3.Solver(); s.solver.set('timeout', 30000)
        return s.solver
    def feasible(s, extra):
        sv = s._solver(); sv.push(); sv.add(s.pc + [extra]); r = _qcheck(sv); sv.pop()
        if r == z3.unknown: raise Unsupported('feasibility query unknown')
        return r == z3.sat
    def branch(s, c):
        c = tobool(c)
        c = z3.simplify(c)
        if z3.is_true(c): return True
        if z3.is_false(c): return False
        if s.dpos < len(s.decisions): d = s.decisions[s.dpos]
        else:
            t_ok = s.feasible(c); f_ok = s.feasible(z3.Not(c))
            if not (t_ok or f_ok): raise Unsupported('infeasible path condition')
            if t_ok and f_ok: s.worklist.append(s.decisions + [False]); d = True
            else: d = t_ok
            s.decisions.append(d)
        s.dpos += 1; s.pc.append(c if d else z3.Not(c)); return d
    def concretize(s, v, w=64, what=''):
        if is_c(v): return v
        if isinstance(v, (FV, Half)): raise FieldWordOp('field word where a concrete value is needed (%s)' % what)
        v = z3.simplify(tobv(v, w))
        if z3.is_bv_value(v): return v.as_long()
        if s.dpos < len(s.decisions): d = s.decisions[s.dpos]
        else:
            sv = s._solver(); sv.push(); sv.add(s.pc); vals = []
            while True:
                r = _qcheck(sv)
                if r == z3.unknown: sv.pop(); raise Unsupported('concretisation query unknown')
                if r == z3.unsat: break
                x = sv.model().eval(v, model_completion=True).as_long(); vals.append(x); sv.add(v != x)
                if len(vals) > s.conc_cap: sv.pop(); raise Unsupported('more than %d feasible values for %s' % (s.conc_cap, what))
            sv.pop()
            if not vals: raise Unsupported('infeasible path at concretisation')
            vals.sort()
            for x in vals[1:]: s.worklist.append(s.decisions + [('c', x)])
            d = ('c', vals[0]); s.decisions.append(d)
        s.dpos += 1; s.pc.append(v == d[1]); return d[1]
    def val(s, env, t, v): return s.w.const(t, v, env)
    # ---- calls
    def call(s, name, args):
        s.calls += 1; w = s.w
        h = w.hooks.get(name)
        if h is not None:
            r = h(s, args)
            if r is not NotImplemented: return r
        if name.startswith('@llvm.'):
            r = s.intrinsic(name, args)
            if r is not NotImplemented: return r
        f = w.funcs.get(name)
        if f is None: raise Unsupported('no body for ' + name)
        if AUTOSUM[0] is not None and getattr(w, 'alg', None) is not None and name in AUTOSUM[0].AUTO:
            r = AUTOSUM[0].apply(s, name, f, args)
            if r is not NotImplemented: return r
        s.depth += 1
        if s.depth > 400: raise Unsupported('call depth')
        try: return s.run(f, args)
        except FieldWordOp as e:
            # no contract for a function that manipulates the bits of a field word: try to infer and prove one, then restart the obligation
            if AUTOSUM[0] is not None and getattr(w, 'alg', None) is not None and not getattr(w, 'no_autosum', False):
                if AUTOSUM[0].attempt(s, name, f, args, e): raise AUTOSUM[0].RestartObligation(name)
            raise
        finally: s.depth -= 1
    def intrinsic(s, name, a):
        w = s.w
        if name.startswith(('@llvm.lifetime', '@llvm.invariant', '@llvm.dbg', '@llvm.assume', '@llvm.experimental.noalias')): return None
        if name.startswith('@llvm.stacksave'): return NULL
        if name.startswith('@llvm.stackrestore'): return None
        if name.startswith(('@llvm.umax', '@llvm.umin', '@llvm.smax', '@llvm.smin')):
            mw = re.search(r'i(\d+)$', name); wd0 = int(mw.group(1)) if mw else 64
            return s._minmax(a, {'umax': 'ugt', 'umin': 'ult', 'smax': 'sgt', 'smin': 'slt'}[name[6:10]], wd0)
        m_ = re.match(r'@llvm\.([us])(add|sub|mul)\.with\.overflow\.i(\d+)$', name)
        if m_ and not isinstance(a[0], list):
            sg_, op_, wd = m_.group(1), m_.group(2), int(m_.group(3)); x, y = a
            if isinstance(x, (FV, Half)) or isinstance(y, (FV, Half)): raise FieldWordOp('%s on a field word' % name)
            if is_c(x) and is_c(y):
                if sg_ == 's':
                    sx = x - (1 << wd) if x >> (wd - 1) else x; sy = y - (1 << wd) if y >> (wd - 1) else y
                    e = {'add': sx + sy, 'sub': sx - sy, 'mul': sx * sy}[op_]; return [e & mask(wd), int(not (-(1 << (wd - 1)) <= e < (1 << (wd - 1))))]
                e = {'add': x + y, 'sub': x - y, 'mul': x * y}[op_]; return [e & mask(wd), int(not (0 <= e <= mask(wd)))]
            X = tobv(x, wd); Y = tobv(y, wd)
            if op_ == 'mul':
                ext = z3.ZeroExt if sg_ == 'u' else z3.SignExt
                pr = ext(wd, X) * ext(wd, Y); lo = z3.Extract(wd - 1, 0, pr); hi = z3.Extract(2 * wd - 1, wd, pr)
                ov = (hi != 0) if sg_ == 'u' else (hi != z3.If(z3.Extract(wd - 1, wd - 1, lo) == 1, z3.BitVecVal(mask(wd), wd), z3.BitVecVal(0, wd)))
                return [lo, ov]
            r = binop(op_, X, Y, wd)
            if sg_ == 'u': ov = z3.ULT(r, X) if op_ == 'add' else z3.ULT(X, Y)
            elif op_ == 'add': ov = z3.And((X < 0) == (Y < 0), (r < 0) != (X < 0))
            else: ov = z3.And((X < 0) != (Y < 0), (r < 0) != (X < 0))
            return [r, ov]
        m_ = re.match(r'@llvm\.x86\.(addcarry|subborrow)\.(32|64)$', name)
        if m_:
            # _addcarry_u64 / _subborrow_u64: {i8 carry-out, iN result} of a + b + cin (resp. a - b - cin); cin is used as "non-zero"
            wd = int(m_.group(2)); cin, x, y = a
            if isinstance(x, (FV, Half)) or isinstance(y, (FV, Half)): raise FieldWordOp('%s on a field word' % name)
            if is_c(cin) and is_c(x) and is_c(y):
                e = x + y + (1 if cin else 0) if m_.group(1) == 'addcarry' else x - y - (1 if cin else 0)
                return [int(not (0 <= e <= mask(wd))), e & mask(wd)]
            C = z3.If(tobv(cin, 8) != 0, z3.BitVecVal(1, wd + 1), z3.BitVecVal(0, wd + 1)); X = z3.ZeroExt(1, tobv(x, wd)); Y = z3.ZeroExt(1, tobv(y, wd))
            e = (X + Y + C) if m_.group(1) == 'addcarry' else (X - Y - C)
            return [z3.ZeroExt(7, z3.Extract(wd, wd, e)), z3.Extract(wd - 1, 0, e)]
        m_ = re.match(r'@llvm\.u(add|sub)\.sat\.i(\d+)$', name)
        if m_ and not isinstance(a[0], list):
            wd = int(m_.group(2)); x, y = a
            if isinstance(x, (FV, Half)) or isinstance(y, (FV, Half)): raise FieldWordOp('%s on a field word' % name)
            if is_c(x) and is_c(y): return min(x + y, mask(wd)) if m_.group(1) == 'add' else max(x - y, 0)
            X = tobv(x, wd); Y = tobv(y, wd)
            if m_.group(1) == 'add': return z3.If(z3.ULT(X + Y, X), z3.BitVecVal(mask(wd), wd), X + Y)
            return z3.If(z3.ULT(X, Y), z3.BitVecVal(0, wd), X - Y)
        m_ = re.match(r'@llvm\.abs\.i(\d+)$', name)
        if m_ and not isinstance(a[0], list):
            wd = int(m_.group(1)); x = a[0]
            if isinstance(x, (FV, Half)): raise FieldWordOp('%s on a field word' % name)
            if is_c(x): return ((1 << wd) - x) & mask(wd) if x >> (wd - 1) else x
            X = tobv(x, wd); return z3.If(X < 0, -X, X)
        m_ = re.match(r'@llvm\.x86\.(?:avx|avx2|sse41)\.(?:blendv\.p[ds]|pblendvb)', name)
        if m_:
            # lane i of the result is y[i] if the top bit of mask lane i is set, else x[i] (lane words keep their integer bits through the fp bitcasts)
            x, y, mk = a; wd = (256 if (name.endswith('.256') or 'avx2.pblendvb' in name) else 128) // len(x)
            if any(isinstance(v, (FV, Half)) for v in mk): raise FieldWordOp('blendv mask is a field word')
            return [s.sel(icmp('slt', mi, 0, wd), yi, xi, I(wd)) for xi, yi, mi in zip(x, y, mk)]
        m_ = re.match(r'@llvm\.x86\.(?:avx|avx2|sse2|sse)\.(?:movmsk\.p[ds]|pmovmskb)', name)
        if m_:
            x = a[0]; wd = (256 if (name.endswith('.256') or 'avx2' in name) else 128) // len(x); r = 0
            for i, xi in enumerate(x):
                if isinstance(xi, (FV, Half)): raise FieldWordOp('movmsk on a field word')
                b = icmp('slt', xi, 0, wd)
                bit = (int(bool(b)) << i) if is_c(b) else z3.If(tobool(b), z3.BitVecVal(1 << i, 32), z3.BitVecVal(0, 32))
                r = (r | bit) if (is_c(r) and is_c(bit)) else (tobv(r, 32) | tobv(bit, 32))
            return r
        if name.startswith('@llvm.x86.avx512.vpermi2var'):
            x, idx, y = a; n = len(x); return [(x + y)[s.concretize(i) & (2 * n - 1)] for i in idx]
        if name.startswith('@llvm.x86.avx512.permvar') or name.startswith('@llvm.x86.avx2.permd') or name.startswith('@llvm.x86.avx2.permps'):
            x, idx = a; n = len(x); return [x[s.concretize(i) & (n - 1)] for i in idx]
        if name.startswith('@llvm.fshl') or name.startswith('@llvm.fshr'):
            x, y, sh = a
            def f1(x, y, sh, wd):
                sh = s.concretize(sh) % wd
                if sh == 0: return x if 'fshl' in name else y
                if 'fshl' in name: return binop('or', binop('shl', x, sh, wd), binop('lshr', y, wd - sh, wd), wd)
                return binop('or', binop('shl', x, wd - sh, wd), binop('lshr', y, sh, wd), wd)
            wd = int(re.search(r'i(\d+)$', name).group(1))
            if isinstance(x, list): return [f1(p, q, r, wd) for p, q, r in zip(x, y, sh)]
            return f1(x, y, sh, wd)
        if name.startswith('@llvm.bitreverse') or name.startswith('@llvm.bswap'):
            wd = int(re.search(r'i(\d+)$', name).group(1)); x = a[0]; unit = 1 if 'bitreverse' in name else 8
            if is_c(x):
                parts = [(x >> (unit * i)) & ((1 << unit) - 1) for i in range(wd // unit)]
                return sum(p_ << (unit * (wd // unit - 1 - i)) for i, p_ in enumerate(parts))
            return z3.Concat(*[z3.Extract(unit * i + unit - 1, unit * i, x) for i in range(wd // unit)])
        if name.startswith('@llvm.floor'): import math; return float(math.floor(a[0]))
        if name.startswith('@llvm.log2'): import math; return math.log2(a[0])
        if (name.startswith('@llvm.ctlz') or name.startswith('@llvm.cttz')) and not is_c(a[0]) and not isinstance(a[0], (list, FV, Half)):
            # symbolic count of leading/trailing zeros: a chain of comparisons on single bits (exact)
            wd = int(re.search(r'i(\d+)$', name).group(1)); x = tobv(a[0], wd); r = bvv(wd, wd)
            rng_ = range(wd) if 'ctlz' in name else range(wd - 1, -1, -1)
            for i in rng_:      # the last assignment that applies wins: iterate from the least significant candidate
                cnt = (wd - 1 - i) if 'ctlz' in name else i
                r = z3.If(z3.Extract(i, i, x) == bvv(1, 1), bvv(cnt, wd), r)
            return r
        if name.startswith('@llvm.ctpop') or name.startswith('@llvm.ctlz') or name.startswith('@llvm.cttz'):
            x = s.concretize(a[0]); wd = int(re.search(r'i(\d+)$', name).group(1))
            if 'ctpop' in name: return bin(x).count('1')
            if 'ctlz' in name: return wd - x.bit_length()
            return (x & -x).bit_length() - 1 if x else wd
        if name.startswith('@llvm.masked.gather') or name.startswith('@llvm.x86.avx2.gather') or name.startswith('@llvm.x86.avx512.mask.gather') or name.startswith('@llvm.x86.avx512.gather'):
            return s._gather(name, a)
        if name.startswith('@llvm.x86.avx512.mask.scatter') or name.startswith('@llvm.x86.avx512.scatter'):
            return s._scatter(name, a)
        if name.startswith('@llvm.x86.avx2.maskload') or name.startswith('@llvm.x86.avx2.maskstore'):
            raise Unsupported(name)
        return NotImplemented
    def _minmax(s, a, pred, wd0=None):
        x, y = a
        if isinstance(x, list): return [s._minmax((xi, yi), pred, wd0) for xi, yi in zip(x, y)]       # vector form (llvm.umin.v8i64 ...)
        if isinstance(x, (FV, Half)) or isinstance(y, (FV, Half)): raise FieldWordOp('min/max of a field word')
        c = icmp(pred, x, y, (wd0 or 64) if not (z3.is_expr(x) and z3.is_bv(x)) else x.size())
        if is_c(c): return x if c else y
        wd = x.size() if z3.is_expr(x) else y.size()
        return z3.If(c, tobv(x, wd), tobv(y, wd))
    def _gather(s, name, a):
        # llvm.x86.avx2.gather.q.q.256(src, base i8*, <4 x i64> idx, mask, i8 scale) / avx512.mask.gather.qpq.512(src, base, idx, i8 mask, i32 scale)
        if 'avx2.gather' in name:
            src, base, idx, msk, scale = a; n = len(idx); out = []
            for k in range(n):
                m = msk[k]
                if is_c(m):
                    if not (m >> 63): out.append(src[k]); continue
                else: raise Unsupported('symbolic gather mask')
                p = s.w.gep(I(8), base, [binop('mul', idx[k], scale, 64) if not is_c(idx[k]) else ((idx[k] - (1 << 64) if idx[k] >> 63 else idx[k]) * scale) & mask(64)])
                out.append(s.w.load(p, I(64)))
            return out
        if 'avx512' in name and 'gather' in name:
            src, base, idx, msk, scale = a; n = len(idx); out = []
            if isinstance(msk, list): bits = [s.concretize(b, 1) for b in msk]
            else: mk = s.concretize(msk, 8); bits = [(mk >> k) & 1 for k in range(n)]
            for k in range(n):
                if not bits[k]: out.append(src[k]); continue
                p = s.w.gep(I(8), base, [binop('mul', idx[k], scale, 64) if not is_c(idx[k]) else ((idx[k] - (1 << 64) if idx[k] >> 63 else idx[k]) * scale) & mask(64)])
                out.append(s.w.load(p, I(64)))
            return out
        raise Unsupported(name)
    def _scatter(s, name, a):
        base, msk, idx, val, scale = a; n = len(idx)
        if isinstance(msk, list): bits = [s.concretize(b, 1) for b in msk]
        else: mk = s.concretize(msk, 8); bits = [(mk >> k) & 1 for k in range(n)]
        for k in range(n):
            if not bits[k]: continue
            p = s.w.gep(I(8), base, [binop('mul', idx[k], scale, 64) if not is_c(idx[k]) else ((idx[k] - (1 << 64) if idx[k] >> 63 else idx[k]) * scale) & mask(64)])
            s.w.store(p, I(64), val[k])
        return None
    def cast(s, op, x, srt, drt):
        w = s.w
        def cast1(v, sw, dw):
            if v is POISON: return v
            if isinstance(v, (FV, Half)):
                raise FieldWordOp('%s of a field word' % op)
            if op == 'zext':
                if is_c(v): return v
                if z3.is_bool(v): return z3.If(v, bvv(1, dw), bvv(0, dw))
                return z3.ZeroExt(dw - sw, v)
            if op == 'sext':
                if sw == 1:
                    if is_c(v): return mask(dw) if v else 0
                    return z3.If(tobool(v), bvv(mask(dw), dw), bvv(0, dw))
                if is_c(v): return (v - (1 << sw)) & mask(dw) if v >> (sw - 1) else v
                return z3.SignExt(dw - sw, v)
            if op == 'trunc':
                if is_c(v): return v & mask(dw)
                r = z3.simplify(z3.Extract(dw - 1, 0, v))
                return (r == bvv(1, 1)) if dw == 1 else r
            raise Unsupported(op)
        if op == 'bitcast':
            if srt.kind == 'ptr': return x
            if srt.kind == 'vec' and drt.kind == 'vec':
                sb = w.sizeof(srt.el); db = w.sizeof(drt.el)
                if sb == db: return x
                if sb == 8 and db == 4:
                    r = []
                    for c in x: r += split64(c)
                    return r
                if sb == 4 and db == 8: return [join64(x[i], x[i + 1]) for i in range(0, len(x), 2)]
                raise Unsupported('bitcast vec %r->%r' % (srt, drt))
            if srt.kind == 'vec' and drt.kind == 'int' and w.rty(srt.el).kind == 'int' and w.rty(srt.el).bits == 1:
                if all(is_c(b) for b in x): return sum((b & 1) << i for i, b in enumerate(x))
                return MaskBits(list(x))
            if srt.kind == 'int' and drt.kind == 'vec' and w.rty(drt.el).bits == 1:
                if isinstance(x, MaskBits): return list(x.bits)
                if is_c(x): return [(x >> i) & 1 for i in range(drt.n)]
                return [z3.Extract(i, i, x) == bvv(1, 1) for i in range(drt.n)]
            if srt.kind in ('int', 'double') and drt.kind in ('int', 'double'):
                if isinstance(x, float) or drt.kind == 'double': raise Unsupported('int<->double bitcast')
                return x
            raise Unsupported('bitcast %r->%r' % (srt, drt))
        if srt.kind == 'vec': return [cast1(v, (w.rty(srt.el).bits), (w.rty(drt.el).bits)) for v in x]
        if op in ('ptrtoint', 'inttoptr'):
            return x
        if op in ('uitofp', 'sitofp'):
            x = s.concretize(x, srt.bits, 'int->fp')
            if op == 'sitofp' and x >> (srt.bits - 1): x -= 1 << srt.bits
            return float(x)
        if op in ('fptoui', 'fptosi'): return int(x) & mask(drt.bits)
        if op in ('fpext', 'fptrunc'): return x
        return cast1(x, srt.bits, drt.bits)
    def run(s, f, args):
        w = s.w
        env = {pn: a for (t, pn), a in zip(f.params, args)}
        cur = f.order[0]; prev = None
        while True:
            blk = f.blocks[cur]
            newv = {}
            for ins in blk:
                if ins.op != 'phi': break
                for v, l in ins.inc:
                    if l == prev: newv[ins.res] = s.val(env, ins.ty, v); break
                else: raise Unsupported('phi without incoming edge')
            lc = s.loopcut.get((f.name, cur)) if s.loopcut else None
            if lc is not None: newv = lc(s, prev, newv, env)       # loop-cut mode: havoc / record the header's phi values (may raise LoopCut)
            env.update(newv)
            nxt = None
            for ins in blk:
                op = ins.op; w.steps += 1
                if op == 'phi': continue
                if w.steps > w.max_steps: raise Unsupported('step limit')
                if op in BINOPS:
                    t = w.rty(ins.ty); a = s.val(env, t, ins.a); b = s.val(env, t, ins.b)
                    if t.kind == 'vec': r = [s.bin1(op, x, y, w.rty(t.el), ins) for x, y in zip(a, b)]
                    else: r = s.bin1(op, a, b, t, ins)
                    env[ins.res] = r
                elif op == 'icmp':
                    t = w.rty(ins.ty); a = s.val(env, t, ins.a); b = s.val(env, t, ins.b)
                    if t.kind == 'vec': env[ins.res] = [icmp(ins.pred, x, y, w.rty(t.el).bits) for x, y in zip(a, b)]
                    elif t.kind == 'ptr': env[ins.res] = s.ptrcmp(ins.pred, a, b)
                    else: env[ins.res] = icmp(ins.pred, a, b, t.bits)
                elif op == 'fcmp':
                    a = s.val(env, ins.ty, ins.a); b = s.val(env, ins.ty, ins.b)
                    env[ins.res] = int({'oeq': a == b, 'one': a != b, 'olt': a < b, 'ole': a <= b, 'ogt': a > b, 'oge': a >= b, 'ueq': a == b, 'une': a != b, 'ult': a < b, 'ule': a <= b, 'ugt': a > b, 'uge': a >= b}[ins.pred])
                elif op in CASTS:
                    st, sv = ins.src; x = s.val(env, st, sv); env[ins.res] = s.cast(op, x, w.rty(st), w.rty(ins.ty))
                elif op == 'select':
                    c = s.val(env, *ins.c); a = s.val(env, *ins.a); b = s.val(env, *ins.b); t = w.rty(ins.a[0])
                    if t.kind == 'vec':
                        cs = c if isinstance(c, list) else [c] * t.n
                        env[ins.res] = [s.sel(ci, ai, bi, w.rty(t.el)) for ci, ai, bi in zip(cs, a, b)]
                    else: env[ins.res] = s.sel(c, a, b, t)
                elif op == 'alloca':
                    n = 1 if ins.n is None else s.concretize(s.val(env, *ins.n), 64, 'alloca size')
                    o = Obj(w.sizeof(ins.ty) * n, 'alloca' + str(ins.res) + '@' + f.name, ins.align or 8, 'alloca'); env[ins.res] = Ptr(o, 0)
                elif op == 'load':
                    p = s.pin(s.val(env, *ins.ptr))
                    if isinstance(p, Ptr) and w.check_align and ins.align and ins.align > 8: s.check_alignment(p, ins.align, 'load')
                    env[ins.res] = w.load(p, ins.ty)
                elif op == 'store':
                    p = s.pin(s.val(env, *ins.ptr))
                    if isinstance(p, Ptr) and w.check_align and ins.align and ins.align > 8: s.check_alignment(p, ins.align, 'store')
                    w.store(p, ins.v[0], s.val(env, *ins.v))
                elif op == 'getelementptr': env[ins.res] = w.gep(ins.bt, s.val(env, *ins.ops[0]), [s.val(env, *o) for o in ins.ops[1:]])
                elif op == 'shufflevector':
                    a = s.val(env, *ins.a); b = s.val(env, *ins.b); n = len(a); m = s.val(env, *ins.mask)
                    b = b if isinstance(b, list) else [POISON] * n
                    env[ins.res] = [POISON if i is POISON else (a[i] if i < n else b[i - n]) for i in m]
                elif op == 'insertelement':
                    v = list(s.val(env, *ins.v)); v[s.concretize(s.val(env, *ins.idx), 64, 'vector index')] = s.val(env, *ins.e); env[ins.res] = v
                elif op == 'extractelement': env[ins.res] = s.val(env, *ins.v)[s.concretize(s.val(env, *ins.idx), 64, 'vector index')]
                elif op == 'extractvalue':
                    v = s.val(env, *ins.agg)
                    for i in ins.idx: v = v[i]
                    env[ins.res] = v
                elif op == 'insertvalue':
                    agg = s.val(env, *ins.agg); t = w.rty(ins.agg[0])
                    if agg is POISON or agg is None: agg = [POISON] * (len(t.els) if t.kind == 'struct' else t.n)
                    agg = list(agg); assert len(ins.idx) == 1; agg[ins.idx[0]] = s.val(env, *ins.v); env[ins.res] = agg
                elif op in ('call', 'invoke'):
                    args_ = [s.val(env, t, v) for t, v in ins.args]
                    if ins.asm is not None: r = s.asm.run(s, ins, [(t, a) for (t, _), a in zip(ins.args, args_)])
                    else:
                        cal = ins.callee
                        if cal[0] == 'global': name = cal[1]
                        else:
                            fp = s.val(env, None, cal)
                            if not isinstance(fp, FnPtr): raise Unsupported('indirect call through %r' % (fp,))
                            name = fp.name
                        r = s.call(name, args_)
                    if ins.res: env[ins.res] = r
                    if op == 'invoke': nxt = ins.normal; break
                elif op == 'br':
                    if ins.cond is None: nxt = ins.t
                    else:
                        c = s.val(env, *ins.cond)
                        if c is POISON: raise Violation('ub', 'branch on poison/undef')
                        if not is_c(c): c = int(s.branch(c))
                        nxt = ins.t if c else ins.f
                    break
                elif op == 'switch':
                    v = s.val(env, *ins.v); nxt = ins.default
                    if isinstance(v, (FV, Half)): raise FieldWordOp('switch on a field word')
                    if is_c(v):
                        for (ct, cv), lab in ins.cases:
                            if s.val(env, ct, cv) == v: nxt = lab
                    else:
                        # symbolic selector: fork on "v == case" for each case in turn, the default is what remains
                        wd = w.rty(ins.v[0]).bits
                        for (ct, cv), lab in ins.cases:
                            if s.branch(tobv(v, wd) == bvv(s.val(env, ct, cv), wd)): nxt = lab; break
                    break
                elif op == 'ret': return None if ins.v is None else s.val(env, *ins.v)
                elif op == 'unreachable': raise Violation('ub', 'unreachable executed in ' + f.name)
                elif op == 'freeze': env[ins.res] = s.val(env, *ins.src)
                elif op == 'landingpad' or op == 'resume': raise Unsupported('exception unwinding reached')
                elif op == 'fneg': env[ins.res] = -s.val(env, ins.ty, ins.a)
                else: raise Unsupported('op ' + op)
            prev, cur = cur, nxt
    def pin(s, p):
        """a pointer into a bounded object whose offset is a symbolic term: the path condition usually fixes it (or leaves a few values): fork on them"""
        if isinstance(p, Ptr) and p.obj is not None and not isinstance(p.obj, UObj) and not is_c(p.off) and not s.w.race:
            if isinstance(p.off, (FV, Half)): raise FieldWordOp('field word used as an offset')
            return Ptr(p.obj, s.concretize(p.off, 64, 'offset into ' + str(p.obj.name)))
        return p
    def bin1(s, op, a, b, t, ins):
        wd = t.bits if t.kind == 'int' else 64
        if op in ('udiv', 'urem', 'sdiv', 'srem') and not (is_c(a) and is_c(b)) and s.w.__dict__.get('concretize_div', False):
            a = s.concretize(a, wd, op); b = s.concretize(b, wd, op)
        r = binop(op, a, b, wd)
        if ins.flags and is_c(a) and is_c(b) and t.kind == 'int':
            def sg(x): return x - (1 << wd) if x >> (wd - 1) else x
            ex = {'add': lambda x, y: x + y, 'sub': lambda x, y: x - y, 'mul': lambda x, y: x * y, 'shl': lambda x, y: x << y}.get(op)
            if ex:
                if 'nuw' in ins.flags and not (0 <= ex(a, b) <= mask(wd)): raise Violation('ub', '%s nuw overflows (%d,%d)' % (op, a, b))
                if 'nsw' in ins.flags and op != 'shl' and not (-(1 << (wd - 1)) <= ex(sg(a), sg(b)) < (1 << (wd - 1))): raise Violation('ub', '%s nsw overflows (%d,%d)' % (op, sg(a), sg(b)))
        if r is POISON and is_c(a) and is_c(b): raise Violation('ub', 'shift by %d >= width %d' % (b, wd))
        return r
    def sel(s, c, a, b, t):
        if c is POISON: return POISON
        if is_c(c): return a if c else b
        c = tobool(c)
        if isinstance(a, Ptr) or isinstance(b, Ptr) or isinstance(a, (FV, Half, float)) or isinstance(b, (FV, Half, float)):
            if isinstance(a, Ptr) and isinstance(b, Ptr) and a.obj is b.obj and not isinstance(a.obj, type(None)):
                return Ptr(a.obj, z3.If(c, tobv(a.off, 64), tobv(b.off, 64)))
            return a if s.branch(c) else b
        if a is POISON: return b
        if b is POISON: return a
        wd = t.bits if t.kind == 'int' else 64
        if wd == 1 and not (z3.is_bv(a) or z3.is_bv(b)): return z3.If(c, tobool(a), tobool(b))
        return z3.If(c, tobv(a, wd), tobv(b, wd))
    def ptrcmp(s, pred, a, b):
        if isinstance(a, FnPtr) or isinstance(b, FnPtr): eq = isinstance(a, FnPtr) and isinstance(b, FnPtr) and a.name == b.name
        elif a.obj is not b.obj: eq = False
        elif is_c(a.off) and is_c(b.off): eq = a.off == b.off
        else:
            e = tobv(a.off, 64) == tobv(b.off, 64); return e if pred == 'eq' else z3.Not(e)
        if pred in ('eq', 'ne'): return int(eq == (pred == 'eq'))
        if a.obj is b.obj: return icmp(pred, a.off, b.off, 64)
        raise Unsupported('ordered comparison of pointers into different objects')
    def check_alignment(s, p, al, what):
        if p.obj is None or isinstance(p.obj, UObj): return
        if not is_c(p.off): return
        if p.obj.align % al or p.off % al:
            if p.obj.align >= al and p.off % al == 0: return
            raise Violation('misaligned', '%s with align %d at offset %d of %s (object alignment %d)' % (what, al, p.off, p.obj.name, p.obj.align))


class MaskBits:
    """an i8/i16 produced by bitcasting a vector of i1 (AVX512 mask register)"""
    def __init__(s, bits): s.bits = bits


class Path:
    def __init__(s, **kw): s.__dict__.update(kw)

def explore(world, fn, max_paths=512, decisions0=None, partial=False):
    """run fn(it) on every feasible path; world.reset() before each.  partial=True: stop quietly at max_paths and set world.explore_incomplete"""
    out = []; work = [list(decisions0 or [])]; world.explore_incomplete = False
    while work:
        dec = work.pop()
        world.reset(); it = Interp(world, dec)
        status = 'ok'; res = None
        try: res = fn(it)
        except Violation as e: status = 'violation'; res = e
        except Terminated as e: status = 'terminated'; res = e
        out.append(Path(pc=list(it.pc), decisions=list(it.decisions), status=status, result=res, events=list(world.events), it=it))
        work += it.worklist
        if len(out) >= max_paths and work:
            if partial: world.explore_incomplete = True; break
            raise Unsupported('more than %d paths' % max_paths)
    return out
