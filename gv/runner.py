# Check driver: build -> obligations (process pool) -> known findings -> replay files -> evidence -> exit code.
import os, sys, json, time, argparse, importlib, multiprocessing, signal, traceback, hashlib, re, random
from . import build

VERIF = build.VERIF
PROVED, VIOL, INCONC = 'proved', 'violation', 'inconclusive'

class Ob:
    """one proof obligation: fn(ctx, *args) -> result dict (see ok/viol/inconc)"""
    def __init__(s, oid, fn, args=(), kwargs=None, timeout=None, weight=1):
        s.id = oid; s.fn = fn; s.args = args; s.kwargs = kwargs or {}; s.timeout = timeout; s.weight = weight
def ok(detail='', sample=None, **kw): return dict(status=PROVED, detail=detail, sample=sample, **kw)
def viol(key, detail, replay=None, sample=None, **kw): return dict(status=VIOL, key=key, detail=detail, replay=replay, sample=sample, **kw)
def inconc(detail, **kw): return dict(status=INCONC, detail=detail, **kw)

class Ctx:
    def __init__(s, bdir, tier, seed, pid):
        s.bdir = bdir; s.tier = tier; s.seed = seed; s.pid = pid; s.thorough = tier == 'thorough'
    def rng(s, salt=''): return random.Random('%d/%s' % (s.seed, salt))

_OBS = None; _CTX = None
class _Timeout(Exception): pass
def _alarm(sig, frm): raise _Timeout()
def _work(i):
    ob = _OBS[i]; t0 = time.time()
    from . import smt, interp
    q0 = dict(smt.STATS); p0 = list(interp.QSTAT)
    signal.signal(signal.SIGALRM, _alarm); signal.alarm(int(ob.timeout or (1800 if _CTX.thorough else 600)))
    from . import autosum
    n0 = len(autosum.LOG)
    try:
        for attempt_ in range(40):
            try: r = ob.fn(_CTX, *ob.args, **ob.kwargs); break
            except autosum.RestartObligation: continue        # a helper's contract was inferred and proved: run the obligation again
        else: r = inconc('more than 40 helper contracts needed')
    except _Timeout: r = inconc('obligation exceeded its wall-clock budget')
    except Exception as e:
        from .interp import Unsupported
        r = inconc('%s: %s' % (type(e).__name__, e), trace=traceback.format_exc()[-1500:])
    finally: signal.alarm(0)
    r['id'] = ob.id; r['wall_s'] = round(time.time() - t0, 3)
    if len(autosum.LOG) > n0: r['auto_contracts'] = autosum.LOG[n0:]
    r['queries'] = smt.STATS['queries'] - q0['queries']; r['solver_s'] = round(smt.STATS['solver_s'] - q0['solver_s'], 3)
    r['path_queries'] = interp.QSTAT[0] - p0[0]; r['path_solver_s'] = round(interp.QSTAT[1] - p0[1], 3)
    r['cvc5_checked'] = smt.STATS['cvc5_checked'] - q0['cvc5_checked']; r['cvc5_agree'] = smt.STATS['cvc5_agree'] - q0['cvc5_agree']
    return r

def _auto_contracts(results):
    """helper-function contracts inferred and proved during this run (autosum.py), de-duplicated"""
    seen = {}; 
    for r in results:
        for c in r.get('auto_contracts', []) or []:
            k = (c.get('function'), c.get('key'))
            if k not in seen: seen[k] = dict(c, used_by=r['id'])
    return list(seen.values())[:60]

def load_known():
    known = []; fixed = []
    p = os.path.join(VERIF, 'known_findings.txt')
    if os.path.exists(p):
        for ln in open(p):
            ln = ln.strip()
            if not ln or ln.startswith('#'): continue
            m = re.match(r'known:\s+property=(\S+)\s+key=(\S+)\s+(.*)', ln)
            if m: known.append((m.group(1), m.group(2), m.group(3)))
            elif ln.startswith('fixed:'): fixed.append(ln)
    return known, fixed

def run_obligations(obs, ctx, jobs):
    global _OBS, _CTX
    _OBS = obs; _CTX = ctx
    order = sorted(range(len(obs)), key=lambda i: -obs[i].weight)
    if jobs <= 1 or len(obs) == 1: return [_work(i) for i in order]
    mp = multiprocessing.get_context('fork')
    with mp.Pool(min(jobs, len(obs)), maxtasksperchild=200) as pool:
        return list(pool.imap_unordered(_work, order, chunksize=1))

def main(argv=None):
    ap = argparse.ArgumentParser(); ap.add_argument('prop'); ap.add_argument('--tier', default=os.environ.get('VERIF_TIER', 'quick'))
    ap.add_argument('--replay'); ap.add_argument('--jobs', type=int, default=int(os.environ.get('GV_JOBS', '16'))); ap.add_argument('--only', default=None)
    ap.add_argument('--verbose', '-v', action='store_true')
    a = ap.parse_args(argv)
    pid = a.prop; tier = a.tier if a.tier in ('quick', 'thorough') else 'quick'
    seed = int(os.environ.get('VERIF_SEED', '0') or 0)
    t0 = time.time()
    os.environ.setdefault('GV_TMP', os.path.join(VERIF, 'out', 'tmp')); os.makedirs(os.environ['GV_TMP'], exist_ok=True)
    if tier == 'thorough': os.environ.setdefault('GV_CROSSCHECK', '1')
    bdir = build.build()
    mod = importlib.import_module('gv.props.' + pid)
    ctx = Ctx(bdir, tier, seed, pid)
    if a.replay:
        data = json.load(open(a.replay)); okr, text = mod.replay(ctx, data['replay'])
        print(text); print('REPRODUCED' if okr else 'NOT-REPRODUCED'); return 1 if okr else 0
    # translator validation first: concrete vectors through native code and the interpreter
    val = {'vectors': 0, 'mismatches': []}
    if hasattr(mod, 'validate'):
        try: val = mod.validate(ctx)
        except Exception as e: val = {'vectors': 0, 'mismatches': ['validation crashed: %s: %s' % (type(e).__name__, e)], 'trace': traceback.format_exc()[-2000:]}
    obs = mod.obligations(ctx)
    if a.only: obs = [o for o in obs if re.search(a.only, o.id)]
    results = run_obligations(obs, ctx, a.jobs)
    # an inconclusive answer under full parallel load (solver budget exhausted) gets one more attempt with the machine to itself
    # (only obligations whose first attempt was short: a long-running inconclusive obligation is not going to change its mind, and the
    #  retries run one after the other)
    retry = [i for i, o in enumerate(obs) if any(r['id'] == o.id and r['status'] == INCONC and r.get('wall_s', 0) < 90 for r in results)]
    if retry and len(retry) <= 8:
        again = {}; t_retry = time.time()
        for i in retry:
            if time.time() - t_retry > 240: break
            again[obs[i].id] = _work(i)
        results = [again.get(r['id'], r) if r['status'] == INCONC else r for r in results]
        for r in results:
            if r['id'] in again: r['retried'] = True
    results.sort(key=lambda r: r['id'])
    known, fixed = load_known()
    nviol = 0; nknown = 0; ninc = 0; lines = []
    os.makedirs(os.path.join(VERIF, 'out', 'replays'), exist_ok=True)
    for r in results:
        if r['status'] == VIOL:
            k = [kf for kf in known if kf[0] == pid and re.fullmatch(kf[1], r['key'])]
            if k:
                r['status'] = 'known'; nknown += 1; lines.append('KNOWN-FINDING: property=%s %s [%s]' % (pid, k[0][2], r['key'])); continue
            nviol += 1
            h = hashlib.sha256((r['key'] + json.dumps(r.get('replay'), sort_keys=True, default=str)).encode()).hexdigest()[:10]
            path = os.path.join(VERIF, 'out', 'replays', '%s-%s-%s.json' % (pid, re.sub(r'[^A-Za-z0-9_.-]', '_', r['id'])[:80], h))
            json.dump(dict(property=pid, obligation=r['id'], key=r['key'], detail=r['detail'], replay=r.get('replay')), open(path, 'w'), indent=1, default=str)
            lines.append('VIOLATION property=%s replay=%s' % (pid, path)); lines.append('  %s: %s' % (r['key'], r['detail'][:600]))
        elif r['status'] == INCONC:
            ninc += 1; lines.append('INCONCLUSIVE %s: %s' % (r['id'], r['detail'][:400]))
            if a.verbose and r.get('trace'): lines.append(r['trace'])
    if val['mismatches']:
        lines.append('ENCODING-MISMATCH (translator validation): %s' % '; '.join(map(str, val['mismatches'][:5])))
    wall = time.time() - t0
    write_evidence(mod, ctx, results, val, wall, nviol, nknown, ninc)
    for l in lines: print(l)
    nproved = sum(1 for r in results if r['status'] == PROVED)
    print('%s tier=%s obligations=%d proved=%d known=%d violations=%d inconclusive=%d validation_vectors=%d wall=%.1fs' % (pid, tier, len(results), nproved, nknown, nviol, ninc, val['vectors'], wall))
    if nviol: return 1
    if ninc or val['mismatches']: return 2
    return 0

def write_evidence(mod, ctx, results, val, wall, nviol, nknown, ninc):
    pid = ctx.pid
    meta = getattr(mod, 'META', {})
    samples = []
    for r in results:
        if r.get('sample') is not None and len(samples) < 12: samples.append({'obligation': r['id'], 'sample': r['sample'], 'status': r['status']})
    if not samples: samples = [{'obligation': r['id'], 'status': r['status'], 'detail': r['detail'][:200]} for r in results[:5]]
    discharged = sum(1 for r in results if r['status'] in (PROVED, 'known'))
    ev = {
        'property_id': pid, 'tier': ctx.tier, 'seed': ctx.seed, 'level': 'proof',
        'coverage': {
            'obligations': len(results), 'discharged': discharged,
            'checker_cmd': './check %s --tier %s' % (pid, ctx.tier),
            'trusted_base': meta.get('trusted_base', []) + COMMON_TRUSTED,
            'samples': samples, 'exhaustive': False,
            'functions_encoded': meta.get('functions', []),
            'bounds': meta.get('bounds', {}).get(ctx.tier, meta.get('bounds', '')),
            'outside_claim': meta.get('outside', []),
            'stubs': meta.get('stubs', []),
            'solver_queries': sum(r.get('queries', 0) for r in results), 'solver_time_s': round(sum(r.get('solver_s', 0) for r in results), 2),
            'path_feasibility_queries': sum(r.get('path_queries', 0) for r in results), 'path_feasibility_time_s': round(sum(r.get('path_solver_s', 0) for r in results), 2),
            'cvc5_crosschecked': sum(r.get('cvc5_checked', 0) for r in results), 'cvc5_agree': sum(r.get('cvc5_agree', 0) for r in results),
            'translator_validation_vectors': val.get('vectors', 0), 'translator_validation_mismatches': len(val.get('mismatches', [])),
            'ir_build': os.path.basename(ctx.bdir), 'known_findings': nknown, 'inconclusive': ninc,
            'obligation_list': [{'id': r['id'], 'status': r['status'], 'wall_s': r['wall_s'], 'queries': r.get('queries', 0), 'detail': (r.get('detail') or '')[:160]} for r in results][:400],
            'auto_contracts': _auto_contracts(results),
            'vacuity_twins': sum(1 for r in results if r.get('twin') == 'sat'),
        },
        'assumptions': meta.get('assumptions', []),
        'wall_s': round(wall, 2), 'violations': nviol,
    }
    if hasattr(mod, 'extra_evidence'):
        try: ev['coverage'].update(mod.extra_evidence(ctx))
        except Exception as e: ev['coverage']['extra_evidence_error'] = str(e)
    os.makedirs(os.path.join(VERIF, 'evidence'), exist_ok=True)
    tmp = os.path.join(VERIF, 'evidence', '%s.json.tmp' % pid)
    json.dump(ev, open(tmp, 'w'), indent=1, default=str); os.replace(tmp, os.path.join(VERIF, 'evidence', '%s.json' % pid))

COMMON_TRUSTED = [
    'clang-14 front end and -O1 mid-end (IR is regenerated from /repo on every run)',
    'gv interpreter semantics of the LLVM IR subset, x86/PTX mini-semantics (validated each run against the native build on concrete vectors)',
    'z3 (python3-vt, 4.13+/5.x); in the thorough tier linear obligations are re-checked by cvc5',
    'environment stubs listed under coverage.stubs',
]

if __name__ == '__main__':
    sys.exit(main())
