# Range-tracking translation of the interpreter's bit-vector DAG to integer terms with explicit wrap.
#  - every symbolic BV constant becomes an Int variable with its range asserted (side conditions)
#  - Extract/And/LShr are pushed structurally through Concat/ZeroExt so 32-bit limbs stay variables
#  - products of non-constant factors go through one factory (shared monomial; real product or bounded abstraction)
#  - wide values read through 32-bit aligned extracts get fresh limb variables tied by one linear equation
import z3
from z3 import Z3_OP_BADD, Z3_OP_BSUB, Z3_OP_BMUL, Z3_OP_BAND, Z3_OP_BOR, Z3_OP_BXOR, Z3_OP_BNOT, Z3_OP_BNEG, \
    Z3_OP_EXTRACT, Z3_OP_CONCAT, Z3_OP_ZERO_EXT, Z3_OP_SIGN_EXT, Z3_OP_BSHL, Z3_OP_BLSHR, Z3_OP_BASHR, Z3_OP_ITE, Z3_OP_ULT, Z3_OP_ULEQ, \
    Z3_OP_UGT, Z3_OP_UGEQ, Z3_OP_SLT, Z3_OP_SLEQ, Z3_OP_SGT, Z3_OP_SGEQ, Z3_OP_EQ, Z3_OP_AND, Z3_OP_OR, Z3_OP_NOT, Z3_OP_XOR, Z3_OP_BUDIV, Z3_OP_BUREM, \
    Z3_OP_UNINTERPRETED, Z3_OP_BNUM, Z3_OP_TRUE, Z3_OP_FALSE, Z3_OP_DISTINCT, Z3_OP_BUDIV_I, Z3_OP_BUREM_I, Z3_OP_IMPLIES

_i2b = {}; _b2i = {}
def BVOfInt(x, wd):
    """marker: the wd-bit two's complement word of the mathematical integer x (mod 2^wd)"""
    f = _i2b.get(wd)
    if f is None: f = _i2b[wd] = z3.Function('gv_int2bv_%d' % wd, z3.IntSort(), z3.BitVecSort(wd))
    return f(x)
def IntOfBV(x, signed=False):
    """marker: the unsigned (or signed) integer value of the word x"""
    k = (x.size(), signed); f = _b2i.get(k)
    if f is None: f = _b2i[k] = z3.Function('gv_bv2int_%s%d' % ('s' if signed else 'u', x.size()), z3.BitVecSort(x.size()), z3.IntSort())
    return f(x)

class T:
    def __init__(s, limb_min=0, abstract=False, nowrap=False):
        s.memo = {}; s.side = []; s.vars = {}; s.limb_min = limb_min; s.abstract = abstract; s.prods = {}; s.nfresh = 0; s.nprod = 0
        s.nowrap = nowrap; s.nowrap_obl = []      # nowrap: assume-and-prove mode: arithmetic that may wrap is emitted unwrapped and "0 <= e < 2^w" becomes a side obligation
    def fresh(s, pfx):
        s.nfresh += 1; return z3.Int('%s!%d' % (pfx, s.nfresh))
    # ---- product factory
    def mulint(s, a, b):
        """product of two translated triples (expr, lo, hi), both with lo >= 0"""
        (ea, la, ha), (eb, lb, hb) = a, b
        if z3.is_int_value(ea) or z3.is_int_value(eb): return ea * eb, la * lb, ha * hb
        k = tuple(sorted((ea.get_id(), eb.get_id())))
        if k in s.prods: return s.prods[k][2]
        lo, hi = la * lb, ha * hb
        if s.abstract: e = s.fresh('prod')
        else: e = ea * eb
        s.nprod += 1
        s.side.append(z3.And(e >= lo, e <= hi))
        r = (e, lo, hi); s.prods[k] = (ea, eb, r); return r
    def parts(s, x):
        """decompose a BV term into [(sub-term, shift)] along Concat/ZeroExt structure"""
        op = x.decl().kind(); ch = x.children()
        if op == Z3_OP_ZERO_EXT: return s.parts(ch[0])
        if op == Z3_OP_CONCAT:
            out = []; pos = x.size()
            for c in ch:
                pos -= c.size()
                for (t, sh) in s.parts(c): out.append((t, sh + pos))
            return out
        return [(x, 0)]
    def prod(s, a, b):
        """exact integer product of the unsigned values of BV terms a and b (expr, lo, hi)"""
        e = 0; lo = 0; hi = 0
        for (ta, sa) in s.parts(a):
            A = s.bv(ta)
            if z3.is_int_value(A[0]) and A[0].as_long() == 0: continue
            for (tb, sb) in s.parts(b):
                B = s.bv(tb)
                if z3.is_int_value(B[0]) and B[0].as_long() == 0: continue
                m = s.mulint(A, B); sh = 1 << (sa + sb)
                e = e + m[0] * sh if sh > 1 else e + m[0]; lo += m[1] * sh; hi += m[2] * sh
        if isinstance(e, int): e = z3.IntVal(e)
        return e, lo, hi
    def val(s, x):
        """unsigned integer value of BV term (or python int)"""
        if isinstance(x, int): return z3.IntVal(x)
        return s.bv(x)[0]
    def sval(s, x):
        w = x.size(); return s.signed(s.bv(x)[0], w)
    # ---- wrap helpers
    def wrapu(s, e, lo, hi, w):
        M = 1 << w
        if lo >= 0 and hi < M: return e, lo, hi
        if s.nowrap and not z3.is_int_value(e):
            s.nowrap_obl.append(z3.And(e >= 0, e < M)); return e, max(lo, 0), min(hi, M - 1)
        if lo >= 0 and hi < 2 * M: return z3.If(e >= M, e - M, e), 0, M - 1
        if lo >= -M and hi < M: return z3.If(e < 0, e + M, e), 0, M - 1
        if lo >= -M and hi < 2 * M: return z3.If(e < 0, e + M, z3.If(e >= M, e - M, e)), 0, M - 1
        return e % M, 0, M - 1
    def limbs(s, x, a, alo, ahi):
        k = ('limbs', x.get_id())
        if k in s.memo: return s.memo[k][1]
        n = (x.size() + 31) // 32; L = []; tot = 0
        for j in range(n):
            mx = min((1 << 32) - 1, ahi >> (32 * j))
            if mx == 0: L.append((z3.IntVal(0), 0)); continue
            v = s.fresh('limb%d_' % j); s.side.append(z3.And(v >= 0, v <= mx)); L.append((v, mx)); tot = tot + v * (1 << (32 * j))
        s.side.append(a == tot)
        s.memo[k] = (x, L); return L
    def push_extract(s, y, h, l):
        op = y.decl().kind(); ch = y.children()
        if op == Z3_OP_CONCAT:
            pos = y.size()
            for c in ch:
                cw = c.size(); top = pos - 1; bot = pos - cw
                if h <= top and l >= bot:
                    if h == top and l == bot: return c
                    return z3.Extract(h - bot, l - bot, c)
                pos = bot
            # spans several children: re-concat the pieces
            pieces = []; pos = y.size()
            for c in ch:
                cw = c.size(); top = pos - 1; bot = pos - cw; pos = bot
                hh = min(h, top); ll = max(l, bot)
                if hh >= ll: pieces.append(c if (hh == top and ll == bot) else z3.Extract(hh - bot, ll - bot, c))
            return z3.Concat(*pieces) if len(pieces) > 1 else pieces[0]
        if op == Z3_OP_ZERO_EXT:
            cw = ch[0].size()
            if h < cw: return ch[0] if (l == 0 and h == cw - 1) else z3.Extract(h, l, ch[0])
            if l >= cw: return z3.BitVecVal(0, h - l + 1)
            return z3.ZeroExt(h - cw + 1, ch[0] if l == 0 else z3.Extract(cw - 1, l, ch[0]))
        if op == Z3_OP_EXTRACT:
            h2, l2 = y.params(); return z3.Extract(h + l2, l + l2, ch[0])
        if op == Z3_OP_ITE:
            return z3.If(ch[0], z3.Extract(h, l, ch[1]), z3.Extract(h, l, ch[2])) if (y.size() <= 64 and l % 32 == 0 and (h + 1) % 32 == 0 and False) else None
        return None
    def signed(s, e, w): return z3.If(e >= (1 << (w - 1)), e - (1 << w), e)
    def bv(s, x):
        k = x.get_id()
        if k in s.memo: return s.memo[k][1]
        r = s._bv(x); s.memo[k] = (x, r); return r
    def _bv(s, x):
        w = x.size(); M = 1 << w; op = x.decl().kind(); ch = x.children()
        if op == Z3_OP_BNUM: v = x.as_long(); return z3.IntVal(v), v, v
        if op == Z3_OP_UNINTERPRETED:
            nm = x.decl().name()
            if not ch:
                v = z3.Int(nm + '!i'); s.side.append(z3.And(v >= 0, v < M)); s.vars[nm] = v; return v, 0, M - 1
            if nm.startswith('gv_int2bv_'):
                e = s.int(ch[0]); return e % M, 0, M - 1
            # uninterpreted function returning BV (e.g. havoc): fresh var per application
            v = s.fresh('uf'); s.side.append(z3.And(v >= 0, v < M)); return v, 0, M - 1
        if op == Z3_OP_BADD:
            es = [s.bv(c) for c in ch]
            if s.nowrap:      # constants in the upper half are read as negative offsets (x + (2^w - 1) is x - 1)
                es = [((z3.IntVal(lo - M), lo - M, lo - M) if (z3.is_int_value(a) and lo >= M // 2) else (a, lo, hi)) for a, lo, hi in es]
            e = es[0][0]
            for a, _, _ in es[1:]: e = e + a
            return s.wrapu(e, sum(a for _, a, _ in es), sum(a for _, _, a in es), w)
        if op == Z3_OP_BSUB:
            a, b = [s.bv(c) for c in ch]; return s.wrapu(a[0] - b[0], a[1] - b[2], a[2] - b[1], w)
        if op == Z3_OP_BNEG:
            a = s.bv(ch[0]); return s.wrapu(-a[0], -a[2], -a[1], w)
        if op == Z3_OP_BMUL:
            cur = None
            for c in ch:
                if cur is None: cur = ('t', c); continue
                a = cur[1] if cur[0] == 't' else None
                if a is not None: r = s.prod(a, c)
                else: r = s.mulint(cur[1], s.bv(c))
                cur = ('v', r)
            e, lo, hi = cur[1]
            return s.wrapu(e, lo, hi, w)
        if op == Z3_OP_EXTRACT:
            h, l = x.params(); n = h - l + 1
            y = s.push_extract(ch[0], h, l)
            if y is not None: return s.bv(y)
            cop = ch[0].decl().kind()
            if cop in (Z3_OP_BAND, Z3_OP_BOR, Z3_OP_BXOR, Z3_OP_BNOT) and n < ch[0].size() and not any(z3.is_bv_value(c) for c in ch[0].children()):
                # a bit field of a bitwise operation is the bitwise operation of the bit fields (exact); single bits are then encoded as booleans
                sub = [z3.Extract(h, l, c) for c in ch[0].children()]
                return s.bv(~sub[0] if cop == Z3_OP_BNOT else s._nary(cop, sub))
            a, alo, ahi = s.bv(ch[0])
            if n == 1 and l == ch[0].size() - 1 and not z3.is_int_value(a) and ahi < (1 << ch[0].size()):
                return z3.If(a >= (1 << l), z3.IntVal(1), z3.IntVal(0)), 0, 1        # the top bit of a word is a comparison
            if ahi < (1 << l): return z3.IntVal(0), 0, 0
            if l == 0 and ahi < (1 << n): return a, alo, ahi
            if l % 32 == 0 and (h + 1) % 32 == 0 and not z3.is_int_value(a) and ahi >= (1 << 32) and ch[0].size() >= s.limb_min:
                L = s.limbs(ch[0], a, alo, ahi)
                e = None; hi_ = 0
                for j in range(h // 32, l // 32 - 1, -1):
                    e = L[j][0] if e is None else e * (1 << 32) + L[j][0]; hi_ = hi_ * (1 << 32) + L[j][1]
                return e, 0, hi_
            e = a if l == 0 else a / (1 << l); elo = alo >> l; ehi = ahi >> l
            if ehi < (1 << n): return e, elo, ehi
            return e % (1 << n), 0, (1 << n) - 1
        if op == Z3_OP_CONCAT:
            e = None; lo = hi = 0
            for c in ch:
                a, l, h = s.bv(c); cw = c.size()
                e = a if e is None else e * (1 << cw) + a; lo = lo * (1 << cw) + l; hi = hi * (1 << cw) + h
            return e, lo, hi
        if op == Z3_OP_ZERO_EXT: return s.bv(ch[0])
        if op == Z3_OP_SIGN_EXT:
            a, l, h = s.bv(ch[0]); cw = ch[0].size()
            if h < (1 << (cw - 1)): return a, l, h
            return z3.If(a >= (1 << (cw - 1)), a + M - (1 << cw), a), 0, M - 1
        if op == Z3_OP_BSHL and z3.is_bv_value(ch[1]):
            k = ch[1].as_long()
            if k >= w: return z3.IntVal(0), 0, 0
            a, l, h = s.bv(ch[0])
            if (h << k) < M: return a * (1 << k), l << k, h << k
            if s.nowrap:
                s.nowrap_obl.append(a * (1 << k) < M); return a * (1 << k), l << k, M - 1
            lowpart = s.bv(z3.Extract(w - k - 1, 0, ch[0]))
            return lowpart[0] * (1 << k), 0, lowpart[2] << k
        if op == Z3_OP_BLSHR and z3.is_bv_value(ch[1]):
            k = ch[1].as_long()
            if k == 0: return s.bv(ch[0])
            if k >= w: return z3.IntVal(0), 0, 0
            return s.bv(z3.Extract(w - 1, k, ch[0]))
        if op == Z3_OP_BASHR and z3.is_bv_value(ch[1]):
            k = ch[1].as_long(); a, l, h = s.bv(ch[0])
            if h < (1 << (w - 1)): return s.bv(z3.LShR(ch[0], ch[1]))
            sg = s.signed(a, w); q = sg / (1 << k)     # floor division = arithmetic shift
            return z3.If(q < 0, q + M, q), 0, M - 1
        if op == Z3_OP_BAND:
            consts = [c for c in ch if z3.is_bv_value(c)]; rest = [c for c in ch if not z3.is_bv_value(c)]
            mm = M - 1
            for c_ in consts: mm &= c_.as_long()
            if len(rest) == 0: return z3.IntVal(mm), mm, mm
            if len(consts) >= 1 and len(rest) == 1:
                m = mm
                if m == 0: return z3.IntVal(0), 0, 0
                runs = []; i = 0
                while i < w:
                    if (m >> i) & 1:
                        j = i
                        while j < w and (m >> j) & 1: j += 1
                        runs.append((i, j)); i = j
                    else: i += 1
                e = 0; hi_ = 0
                for (i, j) in runs:
                    part, pl, ph = s.bv(z3.Extract(j - 1, i, rest[0]))
                    e = e + part * (1 << i) if i else e + part
                    hi_ += ph << i
                if isinstance(e, int): e = z3.IntVal(e)
                return e, 0, hi_
            return s.bitop_approx(x, ch, 'and')
        if op == Z3_OP_BXOR:
            consts = [c for c in ch if z3.is_bv_value(c)]; rest = [c for c in ch if not z3.is_bv_value(c)]
            if len(consts) == 1 and len(rest) == 1 and consts[0].as_long() == (1 << (w - 1)):
                a, l, h = s.bv(rest[0]); H = 1 << (w - 1)
                if h < H: return a + H, l + H, h + H
                if l >= H: return a - H, l - H, h - H
                return z3.If(a >= H, a - H, a + H), 0, M - 1
            if len(consts) == 1 and len(rest) == 1 and consts[0].as_long() == M - 1:
                a, l, h = s.bv(rest[0]); return (M - 1) - a, (M - 1) - h, (M - 1) - l
            return s.bitop_approx(x, ch, 'xor')
        if op == Z3_OP_BNOT:
            a, l, h = s.bv(ch[0]); return (M - 1) - a, (M - 1) - h, (M - 1) - l
        if op == Z3_OP_BOR:
            # or of terms with disjoint bit support (shifted pieces)
            es = []
            for c in ch:
                a, l, h = s.bv(c); es.append((c, a, l, h))
            tot = None; hi = 0; used = 0
            for c, a, l, h in es:
                sup = s.support(c)
                if sup is None or (sup & used): return s.bitop_approx(x, ch, 'or')
                used |= sup; tot = a if tot is None else tot + a; hi += h
            return tot, 0, hi
        if op == Z3_OP_ITE:
            c = s.bool(ch[0]); a = s.bv(ch[1]); b = s.bv(ch[2]); return z3.If(c, a[0], b[0]), min(a[1], b[1]), max(a[2], b[2])
        if op in (Z3_OP_BUDIV, Z3_OP_BUDIV_I):
            a = s.bv(ch[0]); b = s.bv(ch[1])
            if b[1] <= 0:
                return z3.If(b[0] == 0, M - 1, a[0] / b[0]), 0, M - 1
            return a[0] / b[0], 0, a[2] // max(1, b[1])
        if op in (Z3_OP_BUREM, Z3_OP_BUREM_I):
            a = s.bv(ch[0]); b = s.bv(ch[1])
            if b[1] <= 0: return z3.If(b[0] == 0, a[0], a[0] % b[0]), 0, a[2]
            return a[0] % b[0], 0, min(a[2], b[2] - 1)
        raise NotImplementedError(str(x.decl()))
    def signtest(s, op, ch):
        """(x, True) if the signed comparison says x < 0, (x, False) if it says x >= 0, None if it is not a sign test"""
        a, b = ch; w = a.size(); m1 = (1 << w) - 1
        if z3.is_bv_value(b) and not z3.is_bv_value(a):
            v = b.as_long()
            if v == 0 and op == Z3_OP_SLT: return a, True
            if v == 0 and op == Z3_OP_SGEQ: return a, False
            if v == m1 and op == Z3_OP_SLEQ: return a, True
            if v == m1 and op == Z3_OP_SGT: return a, False
        if z3.is_bv_value(a) and not z3.is_bv_value(b):
            v = a.as_long()
            if v == 0 and op == Z3_OP_SGT: return b, True
            if v == 0 and op == Z3_OP_SLEQ: return b, False
            if v == m1 and op == Z3_OP_SGEQ: return b, True
            if v == m1 and op == Z3_OP_SLT: return b, False
        return None
    def _nary(s, cop, sub):
        r = sub[0]
        for t in sub[1:]: r = (r & t) if cop == Z3_OP_BAND else (r | t) if cop == Z3_OP_BOR else (r ^ t)
        return r
    def bit1(s, ch, op):
        """and/or/xor of single bits: exact"""
        es = [s.bv(c)[0] for c in ch]
        if op == 'and': c = z3.And([e == 1 for e in es])
        elif op == 'or': c = z3.Or([e == 1 for e in es])
        else:
            c = (es[0] == 1)
            for e in es[1:]: c = z3.Xor(c, e == 1)
        return z3.If(c, z3.IntVal(1), z3.IntVal(0)), 0, 1
    def bitop_approx(s, x, ch, op):
        """bitwise and/or/xor of overlapping symbolic words: a fresh integer constrained by facts that hold for the exact operation
           (a sound over-approximation: 'unsat' stays valid, a 'sat' model is re-validated by exact evaluation / replay)"""
        if x.size() == 1: return s.bit1(ch, op)
        w = x.size(); M = 1 << w; es = [s.bv(c) for c in ch]; v = s.fresh('bit' + op); s.approx = getattr(s, 'approx', 0) + 1
        vals = [e for e, _, _ in es]
        cons = [v >= 0, v < M]
        if op == 'or':
            cons += [v >= e for e in vals] + [v <= sum(vals)] + [(v == 0) == z3.And([e == 0 for e in vals])]
        elif op == 'and':
            cons += [v <= e for e in vals]
            if len(vals) == 2: cons.append(v >= vals[0] + vals[1] - (M - 1))
        else:
            if len(vals) == 2: cons += [v <= vals[0] + vals[1], (v == 0) == (vals[0] == vals[1]), v >= vals[0] - vals[1], v >= vals[1] - vals[0]]
        s.side.append(z3.And(cons)); return v, 0, M - 1
    def support(s, x):
        """bit mask of possibly non-zero bits if structurally evident"""
        op = x.decl().kind(); ch = x.children(); w = x.size()
        if op == Z3_OP_BNUM: return x.as_long()
        if op == Z3_OP_BSHL and z3.is_bv_value(ch[1]):
            k = ch[1].as_long(); sub = s.support(ch[0]); return None if sub is None else (sub << k) & ((1 << w) - 1)
        if op == Z3_OP_ZERO_EXT: return s.support(ch[0])
        if op == Z3_OP_CONCAT:
            tot = 0
            for c in ch:
                sub = s.support(c)
                if sub is None: return None
                tot = (tot << c.size()) | sub
            return tot
        if op == Z3_OP_BAND:
            m = (1 << w) - 1
            for c in ch:
                if z3.is_bv_value(c): m &= c.as_long()
            return m
        if op == Z3_OP_BLSHR and z3.is_bv_value(ch[1]): return ((1 << w) - 1) >> ch[1].as_long()
        return (1 << w) - 1
    def bool(s, x):
        k = ('b', x.get_id())
        if k in s.memo: return s.memo[k][1]
        op = x.decl().kind(); ch = x.children()
        if op == Z3_OP_TRUE: r = z3.BoolVal(True)
        elif op == Z3_OP_FALSE: r = z3.BoolVal(False)
        elif op == Z3_OP_AND: r = z3.And([s.bool(c) for c in ch])
        elif op == Z3_OP_OR: r = z3.Or([s.bool(c) for c in ch])
        elif op == Z3_OP_NOT: r = z3.Not(s.bool(ch[0]))
        elif op == Z3_OP_XOR: r = z3.Xor(s.bool(ch[0]), s.bool(ch[1]))
        elif op == Z3_OP_IMPLIES: r = z3.Implies(s.bool(ch[0]), s.bool(ch[1]))
        elif op == Z3_OP_ITE: r = z3.If(s.bool(ch[0]), s.bool(ch[1]), s.bool(ch[2]))
        elif op in (Z3_OP_EQ, Z3_OP_DISTINCT) and z3.is_bv(ch[0]):
            a = s.bv(ch[0])[0]; b = s.bv(ch[1])[0]; r = (a == b) if op == Z3_OP_EQ else (a != b)
        elif op == Z3_OP_EQ and z3.is_bool(ch[0]): r = (s.bool(ch[0]) == s.bool(ch[1]))
        elif op in (Z3_OP_ULT, Z3_OP_ULEQ, Z3_OP_UGT, Z3_OP_UGEQ):
            a = s.bv(ch[0])[0]; b = s.bv(ch[1])[0]; r = {Z3_OP_ULT: a < b, Z3_OP_ULEQ: a <= b, Z3_OP_UGT: a > b, Z3_OP_UGEQ: a >= b}[op]
        elif op in (Z3_OP_SLT, Z3_OP_SLEQ, Z3_OP_SGT, Z3_OP_SGEQ) and ch[0].size() > 1 and s.signtest(op, ch) is not None:
            # sign test: the top bit (exact also when the word is a bitwise combination)
            x_, neg = s.signtest(op, ch); top = s.bv(z3.Extract(x_.size() - 1, x_.size() - 1, x_))[0]; r = (top == 1) if neg else (top == 0)
        elif op in (Z3_OP_SLT, Z3_OP_SLEQ, Z3_OP_SGT, Z3_OP_SGEQ):
            w = ch[0].size(); a = s.signed(s.bv(ch[0])[0], w); b = s.signed(s.bv(ch[1])[0], w); r = {Z3_OP_SLT: a < b, Z3_OP_SLEQ: a <= b, Z3_OP_SGT: a > b, Z3_OP_SGEQ: a >= b}[op]
        elif op == Z3_OP_UNINTERPRETED and not ch: r = x
        else:
            # integer-level atom (from the GMP contracts): rebuild with translated children
            r = x.decl()(*[s.any(c) for c in ch])
        s.memo[k] = (x, r); return r
    def any(s, c):
        if z3.is_bv(c): return s.bv(c)[0]
        if z3.is_bool(c): return s.bool(c)
        return s.int(c)
    def int(s, x):
        """translate an Int-sorted term that may contain gv_bv2int markers / BV-conditioned ites"""
        if isinstance(x, int): return z3.IntVal(x)
        k = ('i', x.get_id())
        if k in s.memo: return s.memo[k][1]
        ch = x.children()
        if not ch: r = x
        else:
            nm = x.decl().name()
            if nm.startswith('gv_bv2int_'):
                a = s.bv(ch[0]); r = s.signed(a[0], ch[0].size()) if nm[10] == 's' else a[0]
            else: r = x.decl()(*[s.any(c) for c in ch])
        s.memo[k] = (x, r); return r
