# Environment stubs: allocator (kind tracking), libc, C++ runtime, iostream, OpenMP runtime queries, GMP contracts.
# Each stub is part of the claim and is listed in evidence (STUB_DOC).
import z3
from .interp import *

STUB_DOC = [
    'malloc/operator new/new[]: never fail, return a fresh object of the requested size, allocator kind recorded',
    'free/delete/delete[]: object becomes inaccessible; kind mismatch, double free, interior pointer are reported',
    'memcpy/memset/memmove: byte extents checked against object sizes, cell-wise transfer',
    'exit/abort/__assert_fail/__cxa_throw: end the path with a recorded termination kind',
    'std::ostream insertion, ios_base::Init, endl, flush: no-ops',
    'omp_get_max_threads: returns a configurable int >= 1 (default 4); omp_set_*: recorded, no effect; omp_get_thread_num: 0',
    'GMP entry points (mpz_*): operations on mathematical integers per the GMP manual (tdiv: remainder has sign of dividend; get_ui: low 64 bits of |x|)',
]

def install(w):
    H = w.hooks
    def malloc(kind):
        def h(it, a):
            n = it.concretize(a[0], 64, 'allocation size')
            o = Obj(n, '%s#%d' % (kind, len(w.alloc_log)), 16, 'heap'); o.alloc = kind; w.heap[o.id] = o; w.alloc_log.append((kind, n)); return Ptr(o, 0)
        return h
    def free(kind, ok):
        def h(it, a):
            p = a[0]
            if not isinstance(p, Ptr) or p.obj is None: return None
            o = p.obj
            if o.freed: raise Violation('double-free', '%s of already released %s' % (kind, o.name))
            if o.id not in w.heap: raise Violation('bad-free', '%s of non-heap object %s' % (kind, o.name))
            if p.off != 0: raise Violation('bad-free', '%s of interior pointer' % kind)
            if o.alloc not in ok: w.events.append(('mismatched-free', '%s block released with %s' % (o.alloc, kind)))
            del w.heap[o.id]; o.freed = True; return None
        return h
    H['@malloc'] = malloc('malloc'); H['@_Znam'] = malloc('new[]'); H['@_Znwm'] = malloc('new')
    def calloc(it, a):
        n = it.concretize(a[0], 64, 'calloc') * it.concretize(a[1], 64, 'calloc'); p = malloc('malloc')(it, [n])
        for k in range((n + 7) // 8): p.obj.cells[k] = 0
        return p
    H['@calloc'] = calloc
    def aligned_alloc(it, a):
        p = malloc('malloc')(it, [a[1]]); p.obj.align = it.concretize(a[0]); return p
    H['@aligned_alloc'] = aligned_alloc
    H['@free'] = free('free', {'malloc'}); H['@_ZdlPv'] = free('delete', {'new'}); H['@_ZdaPv'] = free('delete[]', {'new[]'})
    H['@_ZdlPvm'] = free('delete', {'new'}); H['@_ZdaPvm'] = free('delete[]', {'new[]'})
    def memcpy(it, a):
        if w.race and not is_c(a[2]):       # race analysis: symbolic extent, accesses are only logged
            w.acc.append(('W', a[0].obj, a[0].off, a[2])); w.acc.append(('R', a[1].obj, a[1].off, a[2])); return a[0]
        d, s_, n = a[0], a[1], it.concretize(a[2], 64, 'memcpy length')
        if n == 0: return d
        for q, k in ((d, 'write'), (s_, 'read')):
            if not isinstance(q, Ptr) or q.obj is None: raise Violation('null-deref', 'memcpy %s through null pointer, n=%d' % (k, n))
        if w.race:
            w.acc.append(('W', d.obj, d.off, n)); w.acc.append(('R', s_.obj, s_.off, n)); return d
        if isinstance(d.obj, UObj) or isinstance(s_.obj, UObj):
            if n % 8: raise Unsupported('odd memcpy on unbounded object')
            vals = w.load_bytes(s_, n); w.store_bytes(d, n, vals); return d
        d = it.pin(d); s_ = it.pin(s_)
        if not (is_c(d.off) and is_c(s_.off)): raise Unsupported('memcpy at symbolic offset')
        w._check(d, n, 'store'); w._check(s_, n, 'load')
        if n % 8 == 0 and d.off % 8 == 0 and s_.off % 8 == 0:
            vals = [s_.obj.cells.get(s_.off // 8 + k) for k in range(n // 8)]
            for k, c in enumerate(vals):
                if c is None: d.obj.cells.pop(d.off // 8 + k, None)
                else: d.obj.cells[d.off // 8 + k] = c
        else:
            for k in range(n):
                b = w.load_bytes(Ptr(s_.obj, s_.off + k), 1); w.store_bytes(Ptr(d.obj, d.off + k), 1, b)
        return d
    def memset(it, a):
        if w.race and not is_c(a[2]):
            w.acc.append(('W', a[0].obj, a[0].off, a[2])); return a[0]
        d, v, n = a[0], it.concretize(a[1], 8, 'memset value'), it.concretize(a[2], 64, 'memset length')
        if n == 0: return d
        if not isinstance(d, Ptr) or d.obj is None: raise Violation('null-deref', 'memset through null pointer')
        if w.race: w.acc.append(('W', d.obj, d.off, n)); return d
        d = it.pin(d)
        if not is_c(d.off): raise Unsupported('memset at symbolic offset')
        w._check(d, n, 'store')
        v &= 255
        if n % 8 == 0 and d.off % 8 == 0:
            word = int.from_bytes(bytes([v]) * 8, 'little')
            for k in range(n // 8): d.obj.cells[d.off // 8 + k] = word
        else:
            for k in range(n): w.store_bytes(Ptr(d.obj, d.off + k), 1, [v])
        return d
    for nm in ('@llvm.memcpy.p0i8.p0i8.i64', '@llvm.memmove.p0i8.p0i8.i64', '@memcpy', '@memmove'): H[nm] = memcpy
    for nm in ('@llvm.memset.p0i8.i64', '@memset'): H[nm] = memset
    def assert_fail(it, a): raise Violation('assert-fail', '__assert_fail line %s' % (a[2],))
    H['@__assert_fail'] = assert_fail
    def exit_(it, a): raise Terminated('exit', str(a[0]))
    H['@exit'] = exit_; H['@_exit'] = exit_
    def abort(it, a): raise Violation('abort', 'abort() called')
    H['@abort'] = abort
    def cxa_throw(it, a): raise Terminated('throw', 'C++ exception thrown')
    H['@__cxa_throw'] = cxa_throw
    H['@__cxa_allocate_exception'] = lambda it, a: Ptr(Obj(it.concretize(a[0]) + 64, 'exc', 16, 'heap-exc'), 0)
    H['@__cxa_atexit'] = lambda it, a: 0
    def guard_acquire(it, a):
        # first byte of the guard object: 0 = not yet initialised -> 1 (the caller runs the initialiser), else 0
        v = w.load_bytes(a[0], 1)[0] if a[0].obj.cells.get(a[0].off // 8) is not None else 0
        return 0 if (is_c(v) and v & 1) else 1
    def guard_release(it, a): w.store_bytes(a[0], 1, [1]); return None
    H['@__cxa_guard_acquire'] = guard_acquire; H['@__cxa_guard_release'] = guard_release; H['@__cxa_guard_abort'] = lambda it, a: None
    for nm in ('@_ZNSt16invalid_argumentC1EPKc', '@_ZNSt11range_errorC1EPKc', '@_ZNSt13runtime_errorC1EPKc', '@_ZNSt11logic_errorC1EPKc', '@_ZNSt12out_of_rangeC1EPKc', '@_ZNSt12length_errorC1EPKc'):
        H[nm] = lambda it, a: None
    H['@__cxa_free_exception'] = lambda it, a: None
    H['@_ZNSt8ios_base4InitC1Ev'] = lambda it, a: None
    H['@_ZNSt8ios_base4InitD1Ev'] = lambda it, a: None
    # iostream: no-ops returning the stream
    for nm in ('@_ZStlsISt11char_traitsIcEERSt13basic_ostreamIcT_ES5_PKc', '@_ZNSolsEPFRSoS_E', '@_ZNSolsEm', '@_ZNSolsEi', '@_ZNSolsEl', '@_ZNSo9_M_insertImEERSoT_',
               '@_ZSt4endlIcSt11char_traitsIcEERSt13basic_ostreamIT_T0_ES6_', '@_ZNSo5flushEv', '@_ZNSo3putEc', '@_ZSt16__ostream_insertIcSt11char_traitsIcEERSt13basic_ostreamIT_T0_ES6_PKS3_l',
               '@_ZStlsIcSt11char_traitsIcESaIcEERSt13basic_ostreamIT_T0_ES7_RKNSt7__cxx1112basic_stringIS4_S5_T1_EE'):
        H[nm] = lambda it, a: a[0]
    H['@strlen'] = lambda it, a: _strlen(w, a[0])
    # std::string layout (libstdc++ cxx11): {char* data; size_t size; union{char buf[16]; size_t cap}}
    H['@_ZNKSt7__cxx1112basic_stringIcSt11char_traitsIcESaIcEE5c_strEv'] = lambda it, a: w.load(a[0], Ty('ptr', to=I(8)))
    H['@_ZNKSt7__cxx1112basic_stringIcSt11char_traitsIcESaIcEE4dataEv'] = lambda it, a: w.load(a[0], Ty('ptr', to=I(8)))
    H['@_ZNKSt7__cxx1112basic_stringIcSt11char_traitsIcESaIcEE4sizeEv'] = lambda it, a: w.load(Ptr(a[0].obj, a[0].off + 8), I(64))
    H['@_ZNKSt7__cxx1112basic_stringIcSt11char_traitsIcESaIcEE6lengthEv'] = lambda it, a: w.load(Ptr(a[0].obj, a[0].off + 8), I(64))
    w.omp_max_threads = 4; w.omp_calls = []
    H['@omp_get_max_threads'] = lambda it, a: w.omp_max_threads
    H['@omp_get_num_threads'] = lambda it, a: 1
    H['@omp_get_thread_num'] = lambda it, a: 0
    H['@omp_set_dynamic'] = lambda it, a: w.omp_calls.append(('omp_set_dynamic', a[0]))
    H['@omp_set_num_threads'] = lambda it, a: w.omp_calls.append(('omp_set_num_threads', a[0]))
    H['@omp_in_parallel'] = lambda it, a: 0
    import math
    H['@floor'] = lambda it, a: float(math.floor(a[0]))
    H['@log2'] = lambda it, a: math.log2(a[0])
    H['@ceil'] = lambda it, a: float(math.ceil(a[0]))

def _strlen(w, p):
    n = 0
    while True:
        b = w.load_bytes(Ptr(p.obj, p.off + n), 1)[0]
        if not is_c(b): raise Unsupported('symbolic string')
        if b == 0: return n
        n += 1

def install_strconv(w, Z):
    """libc string -> integer conversions applied to 'the integer Z the string denotes' (Z: python int or z3 Int), per the C standard:
       strtoull/strtoul: out-of-range saturates to ULONG_MAX, a leading minus negates in the unsigned type; strtoll/strtol/atol saturate to LONG_MIN/MAX"""
    from . import bv2int
    M = 1 << 64
    def u(it, a):
        if is_c(Z): return (M - 1) if (Z >= M or Z <= -M) else Z % M
        return bv2int.BVOfInt(z3.If(z3.Or(Z >= M, Z <= -M), M - 1, z3.If(Z >= 0, Z, Z + M)), 64)
    def sgn(it, a):
        if is_c(Z): return max(-(M >> 1), min((M >> 1) - 1, Z)) % M
        return bv2int.BVOfInt(z3.If(Z >= (M >> 1), (M >> 1) - 1, z3.If(Z < -(M >> 1), M >> 1, z3.If(Z >= 0, Z, Z + M))), 64)
    for nm in ('@strtoull', '@strtoul', '@__isoc23_strtoull', '@__isoc23_strtoul'): w.hooks[nm] = u
    for nm in ('@strtoll', '@strtol', '@atol', '@atoll', '@__isoc23_strtoll', '@__isoc23_strtol'): w.hooks[nm] = sgn

def seq_fork(w):
    """sequential semantics of '#pragma omp parallel for': run the outlined function once over the whole iteration space"""
    H = w.hooks; uses_tid = {}
    def asks_thread_id(name, depth=2):
        """does the outlined function (or a callee) ask for its thread number / team size?  Then the work is partitioned by hand and a team of one
           would execute only thread 0's share: such regions are run once per team member (sequentially: a legal schedule of a race-free region)"""
        if name in uses_tid: return uses_tid[name]
        uses_tid[name] = False; f = w.funcs.get(name); found = False
        if f is not None:
            for lab in f.order:
                for ins in f.blocks[lab]:
                    if ins.op in ('call', 'invoke') and isinstance(getattr(ins, 'callee', None), tuple) and ins.callee[0] == 'global':
                        cn = ins.callee[1]
                        if cn in ('@omp_get_thread_num', '@omp_get_num_threads'): found = True
                        elif depth > 0 and cn in w.funcs and not cn.startswith('@__kmpc') and asks_thread_id(cn, depth - 1): found = True
        uses_tid[name] = found; return found
    def fork(it, a):
        micro = a[2]; name = micro.name if isinstance(micro, FnPtr) else micro
        gt = Ptr(Obj(8, 'gtid', 8, 'alloca'), 0); gt.obj.cells[0] = 0
        T = 1
        if asks_thread_id(name):
            req = [c[1] for c in w.omp_calls if c[0] == 'num_threads']
            T = req[-1] if req else w.omp_max_threads
            if not is_c(T): T = it.concretize(T, 32, 'team size of a hand-partitioned parallel region')
            if T >> 31: T = 1
            T = max(1, min(int(T), 64))
        w.omp_calls[:] = [c for c in w.omp_calls if c[0] != 'num_threads'] if T > 1 else w.omp_calls
        try:
            for tid in range(T):
                w.omp_tid = tid; w.omp_team = T
                it.call(name, [gt, gt] + list(a[3:]))
        finally: w.omp_tid = 0; w.omp_team = 1
        return None
    H['@__kmpc_fork_call'] = fork
    H['@omp_get_thread_num'] = lambda it, a: getattr(w, 'omp_tid', 0)
    H['@omp_get_num_threads'] = lambda it, a: getattr(w, 'omp_team', 1)
    def static_init(bits, nm_signed=False):
        def h(it, a):
            loc, gtid, sched, plast, plo, pup, pstr, incr, chunk = a
            sched = it.concretize(sched, 32)
            lo = w.load(plo, I(bits)); up = w.load(pup, I(bits))
            T = getattr(w, 'omp_team', 1); tid = getattr(w, 'omp_tid', 0)
            if T > 1:
                # worksharing loop inside a hand-partitioned region executed by a team of T: the static schedule of thread tid
                lo_c = it.concretize(lo, bits, 'omp lb'); up_c = it.concretize(up, bits, 'omp ub')
                def sg(x): return x - (1 << bits) if (nm_signed and x >> (bits - 1)) else x
                n = sg(up_c) - sg(lo_c) + 1
                if sched == 34:
                    if n > 0:
                        small, extras = divmod(n, T); mylo = sg(lo_c) + tid * small + min(tid, extras); myn = small + (1 if tid < extras else 0)
                        if myn == 0: mylo = sg(up_c) + 1
                        w.store(plo, I(bits), mylo & mask(bits)); w.store(pup, I(bits), (mylo + myn - 1) & mask(bits))
                    w.store(plast, I(32), int(tid == T - 1)); return None
                if sched == 33:
                    ch = it.concretize(chunk, bits, 'omp chunk'); mylo = sg(lo_c) + tid * ch
                    w.store(plo, I(bits), mylo & mask(bits)); w.store(pup, I(bits), (mylo + ch - 1) & mask(bits)); w.store(pstr, I(bits), (T * ch) & mask(bits))
                    w.store(plast, I(32), int(tid == T - 1)); return None
                raise Unsupported('omp schedule %d' % sched)
            if sched == 34:      # static, unchunked, team of one: the whole iteration space
                pass
            elif sched == 33:    # static chunked, team of one: chunks [lo, lo+chunk-1], stride = chunk (the outlined code loops over chunks)
                ch = it.concretize(chunk, bits, 'omp chunk'); lo_c = it.concretize(lo, bits, 'omp lb')
                w.store(pup, I(bits), (lo_c + ch - 1) & mask(bits)); w.store(pstr, I(bits), ch)
            else: raise Unsupported('omp schedule %d' % sched)
            w.store(plast, I(32), 1); return None
        return h
    for nm, b in (('@__kmpc_for_static_init_8u', 64), ('@__kmpc_for_static_init_8', 64), ('@__kmpc_for_static_init_4u', 32), ('@__kmpc_for_static_init_4', 32)):
        H[nm] = static_init(b, not nm.endswith('u'))
    H['@__kmpc_for_static_fini'] = lambda it, a: None
    H['@__kmpc_global_thread_num'] = lambda it, a: 0
    H['@__kmpc_push_num_threads'] = lambda it, a: w.omp_calls.append(('num_threads', a[2]))
    H['@__kmpc_barrier'] = lambda it, a: None
    # '#pragma omp parallel ... if(cond)': when cond is false the caller brackets a direct call of the outlined function with these two
    # (a team of one: no concurrency, the worksharing loop hands that single member the whole iteration space)
    H['@__kmpc_serialized_parallel'] = lambda it, a: None
    H['@__kmpc_end_serialized_parallel'] = lambda it, a: None

def install_gmp(w):
    """GMP C entry points as operations on mathematical integers (python int when concrete, z3 Int when symbolic)."""
    H = w.hooks; mpz = w.mpz = {}
    def key(p): return (p.obj.id, p.off)
    def mz(p):
        k = key(p)
        if k not in mpz: raise Violation('uninit-read', 'use of uninitialised mpz_t')
        return mpz[k]
    HDR_L = 4
    def header(v):
        """first 8 bytes of the __mpz_struct: {int _mp_alloc; int _mp_size}; _mp_size = ±(number of limbs) is what the mpz_sgn / mpz_size macros read.
           For a symbolic integer the limb count is exact up to HDR_L limbs and HDR_L+1 beyond (code that reads it is then cut off by nlimbs' bound)"""
        if is_c(v):
            n = (abs(v).bit_length() + 63) // 64; sz = (-n if v < 0 else n) & mask(32); return ((max(n, 1)) & mask(32)) | (sz << 32)
        from . import bv2int
        ax = z3.If(v >= 0, v, -v); n = z3.IntVal(HDR_L + 1)
        for k in range(HDR_L, -1, -1): n = z3.If(ax < (1 << (64 * k)), z3.IntVal(k), n)
        return z3.Concat(bv2int.BVOfInt(z3.If(v < 0, -n, n), 32), z3.BitVecVal(HDR_L + 1, 32))
    def setz(p, v):
        mpz[key(p)] = v; w.mpz_objs = getattr(w, 'mpz_objs', {}); w.mpz_objs[key(p)] = p.obj
        try:
            if is_c(p.off) and p.obj.size is not None and p.off + 8 <= p.obj.size and p.off % 8 == 0: p.obj.cells[p.off // 8] = header(v)
        except Exception: pass
    w.mpz_get = mz; w.mpz_set = setz
    from . import bv2int
    def b2i(x, signed=False, wd=64):
        if is_c(x):
            if signed and x >> (wd - 1): return x - (1 << wd)
            return x
        return bv2int.IntOfBV(x, signed)
    w.b2i = b2i
    def i2b(x, wd):
        if is_c(x): return x & mask(wd)
        return bv2int.BVOfInt(x, wd)
    def conc(x): return is_c(x)
    def ite(c, a, b):
        if isinstance(c, bool): return a if c else b
        return z3.If(c, a if not is_c(a) else z3.IntVal(a), b if not is_c(b) else z3.IntVal(b))
    def zabs(x): return abs(x) if is_c(x) else z3.If(x >= 0, x, -x)
    def zmod(x, d): return x % d   # d > 0: python and SMT-LIB agree (floor for positive divisor)
    H['@__gmpz_init'] = lambda it, a: setz(a[0], 0)
    H['@__gmpz_clear'] = lambda it, a: mpz.pop(key(a[0]), None)
    H['@__gmpz_init_set_ui'] = lambda it, a: setz(a[0], b2i(a[1]))
    H['@__gmpz_init_set_si'] = lambda it, a: setz(a[0], b2i(a[1], True))
    H['@__gmpz_init_set'] = lambda it, a: setz(a[0], mz(a[1]))
    H['@__gmpz_set_ui'] = lambda it, a: setz(a[0], b2i(a[1]))
    H['@__gmpz_set_si'] = lambda it, a: setz(a[0], b2i(a[1], True))
    H['@__gmpz_set'] = lambda it, a: setz(a[0], mz(a[1]))
    H['@__gmpz_swap'] = lambda it, a: (lambda x, y: (setz(a[0], y), setz(a[1], x)))(mz(a[0]), mz(a[1])) and None
    H['@__gmpz_add_ui'] = lambda it, a: setz(a[0], mz(a[1]) + b2i(a[2]))
    H['@__gmpz_sub_ui'] = lambda it, a: setz(a[0], mz(a[1]) - b2i(a[2]))
    H['@__gmpz_ui_sub'] = lambda it, a: setz(a[0], b2i(a[1]) - mz(a[2]))
    H['@__gmpz_add'] = lambda it, a: setz(a[0], mz(a[1]) + mz(a[2]))
    H['@__gmpz_sub'] = lambda it, a: setz(a[0], mz(a[1]) - mz(a[2]))
    H['@__gmpz_mul'] = lambda it, a: setz(a[0], mz(a[1]) * mz(a[2]))
    H['@__gmpz_mul_ui'] = lambda it, a: setz(a[0], mz(a[1]) * b2i(a[2]))
    H['@__gmpz_neg'] = lambda it, a: setz(a[0], -mz(a[1]))
    def tdiv_r_ui(it, a):
        n = mz(a[1]); d = b2i(a[2])
        if conc(d) and d == 0: raise Violation('ub', 'mpz_tdiv_r_ui by zero')
        if conc(n) and conc(d): r = n % d if n >= 0 else -((-n) % d)
        else: r = z3.If(n >= 0, zmod(n, d), -zmod(-n, d))
        setz(a[0], r); return i2b(zabs(r), 64)
    H['@__gmpz_tdiv_r_ui'] = tdiv_r_ui
    def fdiv_r_ui(it, a):
        n = mz(a[1]); d = b2i(a[2]); r = zmod(n, d); setz(a[0], r); return i2b(r, 64)
    H['@__gmpz_fdiv_r_ui'] = fdiv_r_ui
    def tdiv_r(it, a):
        n = mz(a[1]); d = mz(a[2])
        if conc(n) and conc(d): r = abs(n) % abs(d) * (1 if n >= 0 else -1)
        else: r = z3.If(n >= 0, zmod(n, zabs(d)), -zmod(-n, zabs(d)))
        setz(a[0], r)
    H['@__gmpz_tdiv_r'] = tdiv_r
    def mod(it, a):
        n = mz(a[1]); d = mz(a[2]); setz(a[0], zmod(n, zabs(d)))
    H['@__gmpz_mod'] = mod
    H['@__gmpz_fdiv_q_2exp'] = lambda it, a: setz(a[0], mz(a[1]) >> it.concretize(a[2])) if conc(mz(a[1])) else setz(a[0], mz(a[1]) / (1 << it.concretize(a[2])))
    def get_ui(it, a): return i2b(zmod(zabs(mz(a[0])), 1 << 64), 64)
    H['@__gmpz_get_ui'] = get_ui
    def get_si(it, a):
        x = mz(a[0])
        # GMP manual: if the value fits a signed long it is returned; otherwise the result is "probably not very useful" -> modelled as:
        # sign and the least significant bits of |x| (what GMP does)
        if conc(x): return (x if -2**63 <= x < 2**63 else ((abs(x) & (2**63 - 1)) * (1 if x >= 0 else -1))) & mask(64)
        w.events.append(('get_si', x))
        return i2b(x, 64)
    H['@__gmpz_get_si'] = get_si
    # limb-level access (mpz_size / mpz_getlimbn / mpz_fdiv_ui): a symbolic integer is analysed up to MAXL limbs; larger magnitudes are cut off by a
    # recorded path assumption (|z| < 2^(64·MAXL)), which becomes part of the stated bound of the obligation
    MAXL = 4
    def nlimbs(it, x):
        if conc(x): return (abs(x).bit_length() + 63) // 64
        ax = zabs(x)
        it.pc.append(ax < (1 << (64 * MAXL))); w.events.append(('bound', 'mpz magnitude below 2^%d (limb-wise code analysed up to %d limbs)' % (64 * MAXL, MAXL)))
        cnt = MAXL
        for n in range(MAXL):
            if it.branch(ax < (1 << (64 * n))): cnt = n; break
        # name the limbs: |x| = Σ L_i·2^(64 i) with 0 <= L_i < 2^64 (a definitional extension: the decomposition exists and is unique)
        w.limb_seq = getattr(w, 'limb_seq', 0) + 1
        Ls = [z3.Int('mpzlimb_%d_%d' % (w.limb_seq, i)) for i in range(cnt)]
        it.pc.append(z3.And([z3.And(L >= 0, L < (1 << 64)) for L in Ls] + [ax == sum(L * (1 << (64 * i)) for i, L in enumerate(Ls)) if Ls else ax == 0]))
        w.mpz_limbs = getattr(w, 'mpz_limbs', {}); w.mpz_limbs[x.get_id()] = Ls
        return cnt
    H['@__gmpz_size'] = lambda it, a: nlimbs(it, mz(a[0]))
    def getlimbn(it, a):
        x = mz(a[0]); i = it.concretize(a[1], 64, 'limb index')
        if conc(x): return (abs(x) >> (64 * i)) & mask(64)
        Ls = getattr(w, 'mpz_limbs', {}).get(x.get_id())
        if Ls is not None and i < len(Ls): return i2b(Ls[i], 64)
        return i2b(zmod(zabs(x) / (1 << (64 * i)), 1 << 64), 64)
    H['@__gmpz_getlimbn'] = getlimbn
    def fdiv_ui(it, a):
        n = mz(a[0]); d = b2i(a[1])
        if conc(d) and d == 0: raise Violation('ub', 'mpz_fdiv_ui by zero')
        return i2b(zmod(n, d), 64)
    H['@__gmpz_fdiv_ui'] = fdiv_ui
    def tdiv_ui(it, a):
        # mpz_tdiv_ui / mpz_cdiv_ui return the ABSOLUTE value of the remainder of truncating (resp. ceiling) division
        n = mz(a[0]); d = b2i(a[1])
        if conc(d) and d == 0: raise Violation('ub', 'mpz_tdiv_ui by zero')
        return i2b(zmod(zabs(n), d), 64)
    H['@__gmpz_tdiv_ui'] = tdiv_ui
    def cdiv_ui(it, a):
        n = mz(a[0]); d = b2i(a[1])
        if conc(d) and d == 0: raise Violation('ub', 'mpz_cdiv_ui by zero')
        return i2b(zmod(-n, d), 64)
    H['@__gmpz_cdiv_ui'] = cdiv_ui
    def fits(lo, hi):
        def f(it, a):
            x = mz(a[0])
            if conc(x): return 1 if lo <= x <= hi else 0
            return z3.If(z3.And(x >= lo, x <= hi), bvv(1, 32), bvv(0, 32))
        return f
    H['@__gmpz_fits_slong_p'] = fits(-2**63, 2**63 - 1); H['@__gmpz_fits_ulong_p'] = fits(0, 2**64 - 1)
    H['@__gmpz_fits_sint_p'] = fits(-2**31, 2**31 - 1); H['@__gmpz_fits_uint_p'] = fits(0, 2**32 - 1)
    H['@__gmpz_fits_sshort_p'] = fits(-2**15, 2**15 - 1); H['@__gmpz_fits_ushort_p'] = fits(0, 2**16 - 1)
    H['@__gmpz_abs'] = lambda it, a: setz(a[0], zabs(mz(a[1])))
    H['@__gmpz_mul_si'] = lambda it, a: setz(a[0], mz(a[1]) * b2i(a[2], True))
    H['@__gmpz_addmul_ui'] = lambda it, a: setz(a[0], mz(a[0]) + mz(a[1]) * b2i(a[2]))
    H['@__gmpz_submul_ui'] = lambda it, a: setz(a[0], mz(a[0]) - mz(a[1]) * b2i(a[2]))
    H['@__gmpz_addmul'] = lambda it, a: setz(a[0], mz(a[0]) + mz(a[1]) * mz(a[2]))
    H['@__gmpz_submul'] = lambda it, a: setz(a[0], mz(a[0]) - mz(a[1]) * mz(a[2]))
    def fdiv_r(it, a):
        n = mz(a[1]); d = mz(a[2])
        if conc(n) and conc(d):
            if d == 0: raise Violation('ub', 'mpz_fdiv_r by zero')
            r = n % d
        else: r = z3.If(d > 0, zmod(n, zabs(d)), -zmod(-n, zabs(d)))
        setz(a[0], r)
    H['@__gmpz_fdiv_r'] = fdiv_r
    def cmpabs(it, a):
        x = zabs(mz(a[0])); y = zabs(mz(a[1]))
        if conc(x) and conc(y): return ((x > y) - (x < y)) & mask(32)
        return z3.If(x > y, bvv(1, 32), z3.If(x < y, bvv(mask(32), 32), bvv(0, 32)))
    H['@__gmpz_cmpabs'] = cmpabs
    def cmpabs_ui(it, a):
        x = zabs(mz(a[0])); y = b2i(a[1])
        if conc(x) and conc(y): return ((x > y) - (x < y)) & mask(32)
        return z3.If(x > y, bvv(1, 32), z3.If(x < y, bvv(mask(32), 32), bvv(0, 32)))
    H['@__gmpz_cmpabs_ui'] = cmpabs_ui
    def cmp(it, a):
        x = mz(a[0]); y = mz(a[1])
        if conc(x) and conc(y): return ((x > y) - (x < y)) & mask(32)
        return z3.If(x > y, bvv(1, 32), z3.If(x < y, bvv(mask(32), 32), bvv(0, 32)))
    H['@__gmpz_cmp'] = cmp
    def cmp_ui(it, a):
        x = mz(a[0]); y = b2i(a[1])
        if conc(x) and conc(y): return ((x > y) - (x < y)) & mask(32)
        return z3.If(x > y, bvv(1, 32), z3.If(x < y, bvv(mask(32), 32), bvv(0, 32)))
    H['@__gmpz_cmp_ui'] = cmp_ui
    def cmp_si(it, a):
        x = mz(a[0]); y = b2i(a[1], True)
        if conc(x) and conc(y): return ((x > y) - (x < y)) & mask(32)
        return z3.If(x > y, bvv(1, 32), z3.If(x < y, bvv(mask(32), 32), bvv(0, 32)))
    H['@__gmpz_cmp_si'] = cmp_si
    def need_c(x, what):
        if not conc(x): raise Unsupported('symbolic integer in ' + what)
        return x
    H['@__gmpz_powm'] = lambda it, a: setz(a[0], pow(need_c(mz(a[1]), 'powm'), need_c(mz(a[2]), 'powm'), need_c(mz(a[3]), 'powm')))
    H['@__gmpz_tstbit'] = lambda it, a: (need_c(mz(a[0]), 'tstbit') >> it.concretize(a[1])) & 1
    def inv(it, a):
        try: setz(a[0], pow(need_c(mz(a[1]), 'invert'), -1, need_c(mz(a[2]), 'invert'))); return 1
        except ValueError: return 0
    H['@__gmpz_invert'] = inv
    def imp(it, a):
        rop, count, order, size, endian, nails, op = a
        count = it.concretize(count); size = it.concretize(size); order = it.concretize(order, 32)
        if size != 8: raise Unsupported('mpz_import word size %d' % size)
        ws = [w.load(Ptr(op.obj, op.off + 8 * k), I(64)) for k in range(count)]
        if order == 1: ws = ws[::-1]          # most significant word first -> least significant first
        v = 0
        for k, x in enumerate(ws): v = v + b2i(x) * (1 << (64 * k))
        setz(rop, v)
    H['@__gmpz_import'] = imp
