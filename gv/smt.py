# Solver discipline: portfolio over encodings, verdicts unsat / sat(model over inputs) / unknown; optional cvc5 cross-check.
import z3, time, os, subprocess, tempfile
from .bv2int import T

class Res:
    def __init__(s, status, model=None, t=0.0, variant='', info=''):
        s.status = status; s.model = model or {}; s.t = t; s.variant = variant; s.info = info
    def __repr__(s): return 'Res(%s,%s,%.2fs,%s)' % (s.status, s.model, s.t, s.variant)

STATS = {'queries': 0, 'solver_s': 0.0, 'cvc5_checked': 0, 'cvc5_agree': 0}
CROSS = os.environ.get('GV_CROSSCHECK', '0') == '1'

def _check(solver, timeout_ms):
    solver.set('timeout', int(timeout_ms)); t0 = time.time(); r = solver.check(); dt = time.time() - t0
    STATS['queries'] += 1; STATS['solver_s'] += dt
    return r, dt

def check(solver):
    """solver.check() with query/time accounting (for the few direct z3.Solver uses outside prove)"""
    t0 = time.time(); r = solver.check(); STATS['queries'] += 1; STATS['solver_s'] += time.time() - t0
    return r

def cvc5_check(solver, tlimit=30):
    """cross-check an unsat verdict with cvc5 on the exported SMT-LIB2 (linear queries only); returns 'unsat'/'sat'/'unknown'"""
    fresh = z3.Solver(); fresh.add(solver if isinstance(solver, list) else solver.assertions())   # export from a solver that has not run (after check() z3 holds its preprocessed state)
    txt = '(set-logic ALL)\n' + fresh.to_smt2()
    with tempfile.NamedTemporaryFile('w', suffix='.smt2', delete=False, dir=os.environ.get('GV_TMP', None)) as f:
        f.write(txt); fn = f.name
    try:
        r = subprocess.run(['cvc5', '--tlimit=%d' % (tlimit * 1000), fn], stdout=subprocess.PIPE, stderr=subprocess.PIPE, text=True, timeout=tlimit + 10)
        out = r.stdout.strip().split('\n')[0] if r.stdout.strip() else 'unknown'
        if '(error' in r.stdout or '(error' in r.stderr: return 'unknown'
        return out if out in ('sat', 'unsat') else 'unknown'
    except Exception: return 'unknown'
    finally:
        try: os.unlink(fn)
        except Exception: pass

DEFAULT_VARIANTS = [
    dict(limb_min=0, abstract=True, logic=None, share=0.25),
    dict(limb_min=0, abstract=False, logic='QF_NIA', share=0.25),
    dict(limb_min=128, abstract=True, logic=None, share=0.15),
    dict(limb_min=128, abstract=False, logic='QF_NIA', share=0.15),
    dict(limb_min=0, abstract=False, logic=None, share=0.2),
]

def _prove_bv(goal, assumptions, budget):
    """bit-precise member of the portfolio (bvexact.TBV): returns (status, model-or-None, seconds, note)"""
    from . import bvexact
    t0 = time.time()
    try:
        tr = bvexact.TBV()
        with bvexact.exact_mod():
            asm = [a(tr) if callable(a) else tr.bool(a) for a in assumptions]
            g = goal(tr)
        if not z3.is_bool(g): return 'unknown', None, 0.0, 'goal not boolean'
        if bvexact._has_int(g) or any(bvexact._has_int(a) for a in asm): return 'unknown', None, 0.0, 'integer-level atoms'
    except (NotImplementedError, z3.Z3Exception, TypeError, AttributeError) as e:
        return 'unknown', None, time.time() - t0, 'encoder: %s' % str(e)[:80]
    sv = z3.Solver(); sv.add(asm); sv.add(z3.Not(g))
    r, dt = _check(sv, budget * 1000)
    if r == z3.unsat: return 'unsat', None, dt, ''
    if r == z3.sat:
        m = sv.model(); mv = {}
        for nm, var in bvexact.consts(asm + [g]).items(): mv[nm] = m.eval(var, model_completion=True).as_long()
        return 'sat', mv, dt, ''
    return 'unknown', None, dt, ''

def prove(goal, assumptions=(), timeout=60.0, variants=None, cross=None, bitprecise=True):
    """goal(tr) -> Int/Bool-level formula that must hold for all inputs satisfying the assumptions.
       assumptions: z3 Bool terms over BV (translated) or callables tr -> formula.
       Returns Res: 'unsat' = proved; 'sat' = counterexample over the input variables (tr.vars names); 'unknown'."""
    t_start = time.time(); abstract_sat = False; last = 'unknown'; info = []; approx_sat = None; last_real = None
    for v in (variants or DEFAULT_VARIANTS):
        budget = max(2.0, timeout * v['share'])
        try:
            tr = T(limb_min=v['limb_min'], abstract=v['abstract'], nowrap=v.get('nowrap', False))
            asm = [a(tr) if callable(a) else tr.bool(a) for a in assumptions]
            g = goal(tr)
        except NotImplementedError as e:
            return Res('unknown', t=time.time() - t_start, info='encoder: %s' % e)
        if tr.nowrap_obl:
            # assume-and-prove: every "does not wrap" side obligation is proved (in creation order, each from the earlier ones) before it is used
            okw = True; facts = []
            for ob in tr.nowrap_obl:
                sw = z3.SolverFor(v['logic']) if v['logic'] else z3.Solver()
                sw.add(tr.side); sw.add(asm); sw.add(facts); sw.add(z3.Not(ob)); rw, dtw = _check(sw, max(2.0, budget) * 1000 / 2)
                if rw != z3.unsat: okw = False; info.append('nowrap-obligation:%s' % rw); break
                facts.append(ob)
            if not okw: continue
            asm = asm + facts
        if v['abstract'] and tr.nprod == 0 and any(x.startswith('real') for x in info): continue
        s = z3.SolverFor(v['logic']) if v['logic'] else z3.Solver()
        s.add(tr.side); s.add(asm); s.add(z3.Not(g))
        if not v['abstract'] and v['limb_min'] == 0 and getattr(tr, 'approx', 0) == 0: last_real = list(tr.side) + list(asm) + [z3.Not(g)]    # kept as terms: a solver that has run rewrites its assertions
        r, dt = _check(s, budget * 1000)
        tag = '%s/limb%d/%s' % ('abs' if v['abstract'] else 'real', v['limb_min'], v['logic'] or 'default')
        info.append('%s:%s:%.2fs' % (tag, r, dt))
        if r == z3.unsat:
            res = Res('unsat', t=time.time() - t_start, variant=tag, info=' '.join(info))
            if (CROSS if cross is None else cross) and v['abstract'] or ((CROSS if cross is None else cross) and tr.nprod == 0):
                c = cvc5_check(list(tr.side) + list(asm) + [z3.Not(g)]); STATS['cvc5_checked'] += 1
                if c == 'unsat': STATS['cvc5_agree'] += 1
                if c == 'sat': return Res('unknown', t=time.time() - t_start, variant=tag, info='SOLVER DISAGREEMENT z3=unsat cvc5=sat ' + ' '.join(info))
                res.info += ' cvc5:' + c
            return res
        if r == z3.sat:
            if v['abstract'] and tr.nprod > 0:
                abstract_sat = True; continue      # abstraction too coarse: retry with the real products
            m = s.model(); mv = {}
            for d in m.decls():       # integer-level inputs of field-level runs (named without '!')
                if d.arity() == 0 and '!' not in d.name() and z3.is_int_value(m[d]): mv[d.name()] = m[d].as_long()
            for nm, var in tr.vars.items():
                x = m.eval(var, model_completion=True)
                mv[nm] = x.as_long()
            if getattr(tr, 'approx', 0) > 0 and bitprecise:
                # the model was found under over-approximated and/or/xor of symbolic words: it may be spurious, decide bit-precisely
                approx_sat = Res('sat', model=mv, t=time.time() - t_start, variant=tag + '(approximate bit operations)', info=' '.join(info)); break
            return Res('sat', model=mv, t=time.time() - t_start, variant=tag, info=' '.join(info))
        if time.time() - t_start > timeout: break
    if last_real is not None and approx_sat is None and os.environ.get('GV_NO_CVC5') != '1':
        # second solver: cvc5 on the exact (non-abstracted) integer encoding; only an 'unsat' answer is used
        t1 = time.time(); c = cvc5_check(last_real, tlimit=max(5, int(timeout * 0.4))); dtc = time.time() - t1
        STATS['queries'] += 1; STATS['solver_s'] += dtc; info.append('cvc5/real:%s:%.2fs' % (c, dtc))
        if c == 'unsat': return Res('unsat', t=time.time() - t_start, variant='cvc5/real/limb0', info=' '.join(info))
    if bitprecise:
        st, mv, dt, note = _prove_bv(goal, assumptions, max(5.0, timeout * 0.5))
        info.append('bitprecise/bv256:%s:%.2fs%s' % (st, dt, (' ' + note) if note else ''))
        if st == 'unsat': return Res('unsat', t=time.time() - t_start, variant='bitprecise/bv256', info=' '.join(info))
        if st == 'sat': return Res('sat', model=mv, t=time.time() - t_start, variant='bitprecise/bv256', info=' '.join(info))
    if approx_sat is not None: approx_sat.info = ' '.join(info); return approx_sat
    return Res('unknown', t=time.time() - t_start, info=' '.join(info))

def prove_plain(formula_neg_parts, timeout=60.0, logic=None):
    """direct query: are the given constraints satisfiable? (BV / EUF / Int, no translation)"""
    s = z3.SolverFor(logic) if logic else z3.Solver()
    s.add(formula_neg_parts); t0 = time.time(); r, dt = _check(s, timeout * 1000)
    if r == z3.unsat: return Res('unsat', t=dt)
    if r == z3.sat: return Res('sat', model=s.model(), t=dt)
    return Res('unknown', t=dt)
