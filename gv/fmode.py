# Field-level (F) mode: memory words are FV(cls) where cls denotes some integer in the word's residue class mod p.
#  cls is a python int, an LF (linear form over atoms with coefficients mod p) or a z3 Int term.
#  Arithmetic happens only through summarised functions (contracts) whose bit-precise proofs are obligations of the same run.
import z3, functools
from .interp import *

class LF:
    """linear form  k + Σ c_t·t  over atoms t, coefficients reduced mod p (canonical)"""
    __slots__ = ('c', 'k', '_key')
    def __init__(s, c=None, k=0): s.c = c or {}; s.k = k % P; s._key = None
    def key(s):
        if s._key is None: s._key = (s.k, tuple(sorted(s.c.items())))
        return s._key
    def isconst(s): return not s.c
    def __repr__(s): return 'LF(%s%s)' % (s.k, ''.join(' + %d*%s' % (co, t) for t, co in list(s.c.items())[:4]))

class Alg:
    """field algebra used by the contracts; mode 'uf': products of two non-constant forms are hash-consed uninterpreted atoms,
       mode 'poly': they are real integer products (z3 terms)"""
    def __init__(s, mode='uf'):
        s.mode = mode; s.atoms = {}; s.atom_ops = []; s.nmul = 0; s.vars = {}
    def var(s, name):
        s.vars[name] = z3.Int(name); return LF({('x', name): 1}, 0)
    def lf(s, v):
        if isinstance(v, LF): return v
        if is_c(v): return LF(None, v)
        return None
    def toz3(s, v):
        if is_c(v): return z3.IntVal(v % P)
        if isinstance(v, LF):
            e = z3.IntVal(v.k) if v.k or not v.c else None
            for t, co in sorted(v.c.items()):
                a = z3.Int(t[1]) if t[0] == 'x' else z3.Int('%s!%d' % (t[0], t[1]))
                term = a if co == 1 else co * a
                e = term if e is None else e + term
            return e if e is not None else z3.IntVal(0)
        return v
    def add(s, a, b, sg=1):
        A = s.lf(a); B = s.lf(b)
        if A is not None and B is not None:
            c = dict(A.c)
            for t, co in B.c.items():
                n = (c.get(t, 0) + sg * co) % P
                if n: c[t] = n
                else: c.pop(t, None)
            return s.norm(LF(c, A.k + sg * B.k))
        x = s.toz3(a); y = s.toz3(b); return x + y if sg == 1 else x - y
    def sub(s, a, b): return s.add(a, b, -1)
    def neg(s, a): return s.add(0, a, -1)
    def scale(s, a, k):
        return s.norm(LF({t: (co * k) % P for t, co in a.c.items() if (co * k) % P}, a.k * k))
    def norm(s, l): return l.k if l.isconst() else l
    def mul(s, a, b):
        A = s.lf(a); B = s.lf(b); s.nmul += 1
        if A is not None and B is not None:
            if A.isconst(): return s.scale(B, A.k)
            if B.isconst(): return s.scale(A, B.k)
            if s.mode == 'uf':
                k = tuple(sorted((A.key(), B.key())))
                if k not in s.atoms: s.atoms[k] = len(s.atoms); s.atom_ops.append((A, B))
                return LF({('M', s.atoms[k]): 1}, 0)
        return s.toz3(a) * s.toz3(b)
    def eval_lf(s, v, env):
        """python evaluation of a value under {input name: int}; product atoms are evaluated recursively"""
        if is_c(v): return v % P
        memo = env.setdefault('_atoms', {})
        def atom(i):
            if i not in memo:
                A, B = s.atom_ops[i]; memo[i] = s.eval_lf(A, env) * s.eval_lf(B, env) % P
            return memo[i]
        tot = v.k
        for t, co in v.c.items():
            if t[0] == 'L': raise Unsupported('value depends on the low word of a wide product (representation dependent)')
            tot += co * (env[t[1]] if t[0] == 'x' else atom(t[1]))
        return tot % P

def cls_of(v, what='operand'):
    if isinstance(v, FV): return v.cls
    if is_c(v): return v
    if z3.is_expr(v) and z3.is_bv(v) and v.size() == 64:
        from . import bv2int
        return bv2int.IntOfBV(v)          # an exact word used as a field value: its class is its unsigned value
    raise Unsupported('bit-level word used as a field value (%s): %r' % (what, type(v)))

def wrap(c): return c if is_c(c) else FV(c)

def all_concrete(vals): return all(is_c(v) for v in vals)

def install_scalar(w, alg):
    """contracts of Goldilocks::add/sub/mul(Element&, const Element&, const Element&): result class = a op b"""
    w.alg = alg; w.contracts_used = set()
    import gv.interp as _ip
    from . import autosum
    _ip.FALG[0] = alg; _ip.AUTOSUM[0] = autosum
    names = {'add': '@_ZN10Goldilocks3addERNS_7ElementERKS0_S3_', 'sub': '@_ZN10Goldilocks3subERNS_7ElementERKS0_S3_', 'mul': '@_ZN10Goldilocks3mulERNS_7ElementERKS0_S3_'}
    def fop(op):
        def h(it, args):
            res, a, b = args
            x = w.load(a, I(64)); y = w.load(b, I(64))
            if is_c(x) and is_c(y): return NotImplemented       # concrete operands: run the real code
            X = cls_of(x, op); Y = cls_of(y, op)
            v = {'add': alg.add, 'sub': alg.sub, 'mul': alg.mul}[op](X, Y)
            w.store(res, I(64), wrap(v)); w.contracts_used.add('Goldilocks::' + op); return None
        return h
    for op, nm in names.items(): w.hooks[nm] = fop(op)

def install_predicates(w, alg):
    """isZero / isOne / isNegone / equal on field words: the run forks on the residue-class condition (an integer-level path condition)"""
    def cond_hook(fname, spec):
        def h(it, args):
            vals = [w.load(p, I(64)) for p in args]
            if all(is_c(v) for v in vals): return NotImplemented
            zs = [alg.toz3(cls_of(v, fname)) for v in vals]
            c = spec(*zs); w.contracts_used.add('Goldilocks::' + fname)
            return int(it.branch(c))
        return h
    E = '@_ZN10Goldilocks%sERKNS_7ElementE'
    w.hooks[E % '6isZero'] = cond_hook('isZero', lambda a: a % P == 0)
    w.hooks[E % '5isOne'] = cond_hook('isOne', lambda a: (a - 1) % P == 0)
    w.hooks[E % '8isNegone'] = cond_hook('isNegone', lambda a: (a + 1) % P == 0)
    w.hooks['@_ZN10Goldilocks5equalERKNS_7ElementES2_'] = cond_hook('equal', lambda a, b: (a - b) % P == 0)

def lane_contracts(n):
    """lane kernels summarised by install_lanes (each one must be an obligation of any run that relies on them)"""
    sfx = '_avx512' if n == 8 else '_avx'
    return ['add' + sfx, 'sub' + sfx, 'mult' + sfx, 'square' + sfx, 'mult' + sfx + '_8', 'mult' + sfx + '_72', 'mult' + sfx + '_128', 'square' + sfx + '_128',
            'reduce' + sfx + '_96_64', 'reduce' + sfx + '_128_64'] + (['add_avx_b_small'] if n == 4 else ['add_avx512_b_c', 'sub_avx512_b_c'])

def install_lanes(w, alg, ctx, cfg):
    """lane-level contracts of the AVX2 / AVX512 kernels (class level); operand assumptions are discharged on concrete operands"""
    from . import kern
    from .props import lanes
    n = 8 if cfg == 'avx512' else 4; sfx = '_avx512' if n == 8 else '_avx'
    T = lanes.table(n == 8)
    def rdv(p): return w.load_bytes(p, 8 * n)
    def wrv(p, vals): w.store_bytes(p, 8 * n, [wrap(v) for v in vals])
    w.pre_failures = []
    def reg(name, f, pre=None):
        fn = lanes.find(ctx, cfg, name, T[name], n)
        def h(it, args):
            ins = [rdv(p) for p in args[1:]]
            if all(all_concrete(v) for v in ins): return NotImplemented
            if pre:
                try: pre(ins)
                except Unsupported as e:
                    if not getattr(w, 'soft_pre', False): raise
                    w.pre_failures.append(dict(kernel=name, fn=fn, msg=str(e), ins=[[v.cls if isinstance(v, FV) else v for v in vec] for vec in ins]))
            wrv(args[0], [f(*[cls_of(v[i], name) for v in ins]) for i in range(n)]); w.contracts_used.add('Goldilocks::' + name); return None
        w.hooks[fn] = h
    def small(ins):
        for y in ins[1]:
            if not (is_c(y) and y <= 0xFFFFFFFF00000000): raise Unsupported('add_avx_b_small: operand assumption b <= 0xFFFFFFFF00000000 not dischargeable (operand not a constant)')
    def eight(ins):
        for y in ins[1]:
            if not (is_c(y) and y < 256): raise Unsupported('_8 kernel: operand assumption b < 2^8 not dischargeable')
    def canon(ins):
        for y in ins[1]:
            if not (is_c(y) and y < P): raise Unsupported('_b_c kernel: operand assumption "canonical" not dischargeable')
    reg('add' + sfx, alg.add); reg('sub' + sfx, alg.sub); reg('mult' + sfx, alg.mul); reg('square' + sfx, lambda a: alg.mul(a, a))
    reg('mult' + sfx + '_8', alg.mul, eight)
    if n == 4: reg('add_avx_b_small', alg.add, small)
    else: reg('add_avx512_b_c', alg.add, canon); reg('sub_avx512_b_c', alg.sub, canon)
    # wide products: (c_h, c_l) with c_h·2^64 + c_l = a·b as integers.  c_l is a fresh atom L; the class of c_h is then (a·b - L)·2^-64, and its
    # integer bound is kept so that sums of high words (plain 64-bit adds in the kernels) stay field additions; reduce_* folds the pair back
    INV64 = pow(2**64, P - 2, P); nl = [0]
    def wide(name, bound_h, pre=None, unary=False):
        fn = lanes.find(ctx, cfg, name, T[name], n)
        def h(it, args):
            ins = [rdv(p) for p in args[2:]]
            if all(all_concrete(v) for v in ins): return NotImplemented
            if unary: ins = [ins[0], ins[0]]
            if pre:
                try: pre(ins)
                except Unsupported as e:
                    if not getattr(w, 'soft_pre', False): raise
                    w.pre_failures.append(dict(kernel=name, fn=fn, msg=str(e), ins=[[v.cls if isinstance(v, FV) else v for v in vec] for vec in ins]))
            hs = []; ls = []
            for i in range(n):
                nl[0] += 1; L = LF({('L', nl[0]): 1}, 0); pr = alg.mul(cls_of(ins[0][i], name), cls_of(ins[1][i], name))
                ls.append(FV(L)); hs.append(FV(alg.mul(alg.sub(pr, L), INV64), ub=bound_h))
            w.store_bytes(args[0], 8 * n, hs); w.store_bytes(args[1], 8 * n, ls); w.contracts_used.add('Goldilocks::' + name); return None
        w.hooks[fn] = h
    def fold(name, need32):
        fn = lanes.find(ctx, cfg, name, T[name], n)
        def h(it, args):
            H = rdv(args[1]); Lo = rdv(args[2])
            if all_concrete(H) and all_concrete(Lo): return NotImplemented
            if need32:
                for x in H:
                    ubx = x.ub if isinstance(x, FV) else (x if is_c(x) else None)
                    if ubx is None or ubx >= 2**32:
                        msg = '%s: operand assumption c_h < 2^32 not dischargeable' % name
                        if not getattr(w, 'soft_pre', False): raise Unsupported(msg)
                        w.pre_failures.append(dict(kernel=name, fn=fn, msg=msg, ins=[[v.cls if isinstance(v, FV) else v for v in vec] for vec in (H, Lo)])); break
            wrv(args[0], [alg.add(alg.mul(cls_of(H[i], name), 2**64 % P), cls_of(Lo[i], name)) for i in range(n)]); w.contracts_used.add('Goldilocks::' + name); return None
        w.hooks[fn] = h
    wide('mult' + sfx + '_72', 255, eight); wide('mult' + sfx + '_128', None); wide('square' + sfx + '_128', None, unary=True)
    fold('reduce' + sfx + '_96_64', True); fold('reduce' + sfx + '_128_64', False)
    # spmv contracts (proved in C13/C14)
    from .props import mat
    for name, k in mat.kernels(n == 8).items():
        if k['kind'] != 'spmv': continue
        fn = mat.fsym(ctx, cfg, name)
        def h(it, args, name=name, k=k):
            c, a0, a1, a2, b = args
            A = [rdv(p) for p in (a0, a1, a2)]; B = w.load_bytes(b, 96)
            if all(all_concrete(v) for v in A) and all_concrete(B): return NotImplemented
            if k['eight']:
                for y in B:
                    if not (is_c(y) and y < 256): raise Unsupported('%s: coefficient assumption < 2^8 not dischargeable' % name)
            out = []
            for i in range(n):
                acc = 0
                for j in range(3): acc = alg.add(acc, alg.mul(cls_of(A[j][i], name), cls_of(B[4 * j + (i % 4)], name)))
                out.append(acc)
            wrv(c, out); w.contracts_used.add('Goldilocks::' + name); return None
        w.hooks[fn] = h
