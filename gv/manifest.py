# Generates /verif/MANIFEST.json from the table below (run: python3-vt -m gv.manifest).
import json, os
V = os.path.dirname(os.path.dirname(os.path.abspath(__file__)))
CLAIMED = {
 'C01': dict(text='Bounded-free proof: every scalar op executed symbolically from its LLVM IR (inline asm interpreted) on arbitrary 64-bit words; z3 proves out ≡ spec (mod p) for all operands and all aliasing patterns; counterexamples are replayed on the native build.',
             note='Trusted: clang IR generation, gv interpreter + x86 mini-semantics (validated against native code on 2000+ vectors per run), z3. No bound needed (loop-free).',
             technique='symbolic execution of clang LLVM IR + z3 (words as wrapped integers)', ref='4/C01'),
 'C02': dict(text='Every AVX2 lane kernel executed from its LLVM vector IR on fully symbolic 4x64-bit registers; per-lane goal out_i ≡ scalar_op(a_i,b_i) (mod p) (exact 128-bit product for *_128/_72, canonical form where promised) proved by z3 under exactly the documented operand assumption; all lanes symbolic in one run so cross-lane leakage is a counterexample.',
             note='Loop-free: no bound. Trusted: clang lowering of intrinsics to vector IR, interpreter (validated vs native on random/boundary vectors each run), z3.', technique='symbolic execution of clang LLVM vector IR + z3 (wrapped-integer encoding, limb variables)', ref='4/C02'),
 'C11': dict(text='Same as C02 for the 8-lane AVX512 kernels, compiled -mavx512f -D__AVX512__ (a configuration the shipped tests never build); mask registers are <8 x i1> selects in the IR.',
             note='Loop-free: no bound. Counterexamples replay natively when the CPU has avx512f, else in the interpreter concrete mode.', technique='symbolic execution of clang LLVM vector IR + z3', ref='4/C11'),
 'C13': dict(text='spmv_avx_4x12(_a)(_8) proved over the lane contracts of mult_avx/add_avx/mult_avx_72/reduce_avx_96_64 (each re-proved bit-precisely in the same run, callee operand assumptions discharged by the solver at every call site); mmult_avx*(4x12)(_a)(_8) and dot_avx(_a) proved over the spmv contract; goal: every output word ≡ the integer matrix-vector product mod p in the documented layout, for all states and coefficient arrays.',
             note='Assume/guarantee along the real call graph; fallback to bit-precise end-to-end execution if a callee assumption is not implied. No bound (constant trip counts).', technique='compositional symbolic execution of LLVM IR + z3 (linear arithmetic over shared product atoms, NIA for leaf contracts)', ref='4/C13'),
 'C14': dict(text='Same as C13 for the AVX512 kernels on two interleaved states; the precondition "second operand canonical" of add_avx512_b_c is a proof obligation at each call site, which is how defect D8 was found (fixed in /repo).',
             note='As C13; build configuration -mavx512f -D__AVX512__.', technique='compositional symbolic execution of LLVM IR + z3', ref='4/C14'),
 'C03': dict(text='The real constructor, NTT, NTT_iters, reversePermutation, parcpy and destructor are executed symbolically at field level (words = residue classes, Goldilocks::add/sub/mul replaced by their contracts, which are re-proved bit-precisely in the same run); nphase and nblock are symbolic 64-bit values whose clamping classes the solver proves exhaustive; every output word is proved congruent to the DFT definition by z3; aborts, faults, leaks and source modification are violations; counterexamples replay on the native build in a forked process.',
             note='Bounded: object 2^s, s<=4 (thorough 7); n=2^d<=2^s and size 0; ncols 0..3 (4); all dst/buffer modes. Above the bound nothing is claimed. Sequential semantics (C12 covers parallel).', technique='field-level symbolic execution of clang LLVM IR over proved leaf contracts + z3 congruences on the Z-lift', ref='4/C03'),
 'C04': dict(text='Same machinery as C03 for INTT against the inverse-DFT definition, plus composed round trips INTT(NTT(x)) and NTT(INTT(x)) with independent symbolic nphase/nblock per direction.',
             note='Same bounds as C03; round trips n<=8 (16).', technique='field-level symbolic execution of LLVM IR + z3', ref='4/C04'),
 'C05': dict(text='extendPol (with the nested extension object, computeR, zero-padding bit reversal in and out of place) executed symbolically at field level; every output word proved congruent to f_c(7*w_Next^k) where f_c interpolates the input, for symbolic nphase/nblock.',
             note='Bounded: N<=N_ext<=16 (thorough 128), ncols 1..3 (4), in place or distinct, buffer NULL or caller.', technique='field-level symbolic execution of LLVM IR + z3', ref='4/C05'),
 'C19': dict(text='Inductive argument over call histories: frame assertion after every call (constructor-time fields unchanged; r/r_ NULL or the tables of some size), and from every reachable state class each of NTT/INTT/extendPol with symbolic data and symbolic nphase/nblock returns what a fresh object returns (oracles of C03-C05).',
             note='Bounded: object domain 2^s, s<=3 (thorough 5), ncols 1..2 (3). The induction covers histories of any length inside the bound.', technique='one inductive step per (state class, method) by field-level symbolic execution + z3', ref='4/C19'),
 'C09': dict(text='Every scalar Goldilocks3 operation (all overloads, all aliasing patterns) executed at field level over the proved scalar contracts with real integer products; coefficient-wise congruence with the schoolbook product reduced by x^3 = x + 1 decided by z3 (NIA on the Z-lift); inv: inverted value = ±norm(a) and a·inv(a) ≡ (1,0,0) under the base-inverse contract; isOne/fromU64/toU64 bit-precise; batchInverse as ring identities with an abstract inverse symbol.',
             note='Loop-free ops: no bound. batchInverse lengths 1..4 (6). Trusted: non-zero element has non-zero norm (field theory).', technique='field-level symbolic execution of LLVM IR + z3 nonlinear integer arithmetic', ref='4/C09'),
 'C10': dict(text='inv: one inductive step of the real Euclid loop body from a havocked loop head under the invariant (ranges, t·a ≡ r, newt·a ≡ newr with explicit witnesses), entry and exit obligations, refusal of both representations of zero; exp: inductive step with POW uninterpreted + recursion axioms; div and by-value wrappers over the inv contract. No iteration bound.',
             note='Trusted lemmas: Euclid ends at gcd; p prime (Pratt certificate checked); the binary-exponentiation recursion defines b^e. Inductive-step counterexamples are confirmed by a concrete native call before being reported.', technique='loop-cut symbolic execution (inductive step) of LLVM IR + z3', ref='4/C10'),
 'C15': dict(text='All conversions and predicates executed bit-precisely; gmpxx expression templates interpreted from the IR with the GMP C entry points as integer contracts, so big-integer and string inputs are an arbitrary mathematical integer Z; goals: residue mod p and canonical range inward, canonical / centred value outward, toS32 success exactly on [-2^31, 2^31), round trips; counterexamples replayed on a natively built helper.',
             note='No bound (all uint64/int64/int32/Z). Outside: digits GMP parses/prints, std::string internals (tagged moves).', technique='symbolic execution of LLVM IR with integer contracts for GMP + z3', ref='4/C15'),
}
def main():
    props = [json.loads(l) for l in open(os.path.join(V, 'properties.jsonl'))]
    checks = []
    for p in props:
        c = CLAIMED.get(p['id'])
        if not c: continue
        checks.append(dict(property_id=p['id'], quick_cmd='./check %s --tier quick' % p['id'], thorough_cmd='./check %s --tier thorough' % p['id'],
                           evidence_file='evidence/%s.json' % p['id'], replay_cmd_template='./check %s --replay {path}' % p['id'], engine='gv',
                           level_claimed=dict(category='proof', text=c['text'], design_ref=c['ref']), level_note=c['note'], technique=c['technique']))
    na = [dict(property_id=p['id'], reason=NA.get(p['id'], 'check not yet built in this revision of /verif (work in progress; see DESIGN.md section 7)')) for p in props if p['id'] not in CLAIMED]
    m = dict(version=1, setup_cmd='python3-vt -m gv.build', hooks=dict(guard='GOLDILOCKS_VERIF', enable='no hooks are needed: checks compile /repo/src unmodified with clang++-14 to LLVM IR', baseline_off_cmd='/verif/baseline.sh', source_commits=[], add_only=True),
             engines=[dict(name='gv', path='gv/', serves_properties=[c['property_id'] for c in checks], kind_free_text='own symbolic interpreter over clang-14 LLVM IR (x86/PTX inline asm, AVX2/AVX512 vectors, OpenMP outlining) + z3/cvc5')],
             checks=checks, not_applicable=na, notes='All checks: ./check <id> --tier quick|thorough; exit 0 held, 1 VIOLATION, 2 inconclusive/encoding mismatch (never reported as success).')
    json.dump(m, open(os.path.join(V, 'MANIFEST.json'), 'w'), indent=1, ensure_ascii=False)
NA = {}
if __name__ == '__main__': main()
