# Generates /verif/MANIFEST.json from the table below (run: python3-vt -m gv.manifest).
import json, os
V = os.path.dirname(os.path.dirname(os.path.abspath(__file__)))
CLAIMED = {
 'C01': dict(text='Bounded-free proof: every scalar op executed symbolically from its LLVM IR (inline asm interpreted) on arbitrary 64-bit words; z3 proves out ≡ spec (mod p) for all operands and all aliasing patterns; counterexamples are replayed on the native build.',
             note='Trusted: clang IR generation, gv interpreter + x86 mini-semantics (validated against native code on 2000+ vectors per run), z3. No bound needed (loop-free).',
             technique='symbolic execution of clang LLVM IR + z3 (words as wrapped integers)', ref='4/C01'),
}
def main():
    props = [json.loads(l) for l in open(os.path.join(V, 'properties.jsonl'))]
    checks = []
    for p in props:
        c = CLAIMED.get(p['id'])
        if not c: continue
        checks.append(dict(property_id=p['id'], quick_cmd='./check %s --tier quick' % p['id'], thorough_cmd='./check %s --tier thorough' % p['id'],
                           evidence_file='evidence/%s.json' % p['id'], replay_cmd_template='./check %s --replay {path}' % p['id'], engine='gv',
                           level_claimed=dict(category='proof', text=c['text'], design_ref=c['ref']), level_note=c['note'], technique=c['technique']))
    na = [dict(property_id=p['id'], reason=NA.get(p['id'], 'check not yet built in this revision of /verif (work in progress; see DESIGN.md section 7)')) for p in props if p['id'] not in CLAIMED]
    m = dict(version=1, setup_cmd='python3-vt -m gv.build', hooks=dict(guard='GOLDILOCKS_VERIF', enable='no hooks are needed: checks compile /repo/src unmodified with clang++-14 to LLVM IR', baseline_off_cmd='/verif/baseline.sh', source_commits=[], add_only=True),
             engines=[dict(name='gv', path='gv/', serves_properties=[c['property_id'] for c in checks], kind_free_text='own symbolic interpreter over clang-14 LLVM IR (x86/PTX inline asm, AVX2/AVX512 vectors, OpenMP outlining) + z3/cvc5')],
             checks=checks, not_applicable=na, notes='All checks: ./check <id> --tier quick|thorough; exit 0 held, 1 VIOLATION, 2 inconclusive/encoding mismatch (never reported as success).')
    json.dump(m, open(os.path.join(V, 'MANIFEST.json'), 'w'), indent=1, ensure_ascii=False)
NA = {}
if __name__ == '__main__': main()
