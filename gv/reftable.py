# regenerates section 8.6 of DESIGN.md (behaviour-preserving refactorings) from refactorings/*/meta.json and refactorings/results.txt (output of refcheck.sh):
#   ./refcheck.sh | tee refactorings/results.txt ; python3-vt -m gv.reftable
import json, glob, os, re
V = os.path.dirname(os.path.dirname(os.path.abspath(__file__)))
TEXT = '''### 8.6 Behaviour-preserving refactorings: no alarm on code where the property holds

The second requirement on the checks - silence on correct code - was tested the same way as detection: twelve sub-agents (two batches of six),
each given one area of the library and a scratch worktree, produced thirty-six refactorings that keep every result bit-identical (each with
its own differential test of 10^6..10^10 comparisons against a frozen copy of the original, the OpenMP ones also under ThreadSanitizer; the
repository suite passes with each).  They are archived under `refactorings/<name>/` and `refcheck.sh` re-runs them: a `VIOLATION` line or
exit 1 is a false alarm, exit 2 (inconclusive) is acceptable only where the meta data documents why.  The first runs of the then-current
checks gave **three false alarms** (one in C10, two in C12) and many inconclusive answers; what changed:

* **False alarm (C10, `R1-r3`)**: `inv` rewritten on plain integers with the Euclid loop unrolled by two.  The obligation `inv/entry` demanded the
  textbook loop state (0, p, 1, can(a)) and reported its absence as a violation.  All *structural* expectations were audited (C09: number of
  inversions in batchInverse, inverted value = norm; C10: loop shape, forwarding wrappers, exit status; C15: which string and radix reach GMP,
  buffer release; C12: a path without parallel region) and now lead to `inconclusive` or to a decision by concrete native calls; a violation
  is only ever a statement about results.  For C10 the structural proof got a **structure-independent fallback**: the loop-header phis are
  sampled on concrete interpreter runs, pairs (x, y) with x*a = y (mod p) and range facts are read off the samples (candidate invariants), and
  one symbolic iteration from the havocked header must lead every back edge and every exit to a state of the *Euclid closure*
  (A, B) -> (B, A - (Y_A div Y_B)*B) of the header state; the closure step preserves x*a = y (pure-integer lemma discharged by z3) and the gcd
  of the remainders (trusted), so an exit that returns the coefficient paired with the last non-zero remainder returns the inverse.  The same
  template idea decides `exp` loops of other shapes (accumulator, base, remaining exponent = a state word or E >> counter).  In the thorough
  tier the structure-independent check runs *in addition* to the specialised one.
* **False alarms (C12, `R10-r1`, `R10-r2`)**: one parallel region with two work-shared loops separated by the loop barrier, and a region that
  splits its rows by `omp_get_thread_num()`.  The race model executed the outlined function for ONE symbolic iteration and merged everything it
  touched, so accesses on different sides of a barrier were compared.  Regions that contain more than one worksharing loop, a barrier, a
  `single` or a thread-number query are now analysed with a *concrete team*: the region runs once per member of a team of T threads (T = the
  requested size and 2, 3) with the static schedule the runtime would assign, the footprints are cut at barriers, and any two members must be
  disjoint (up to read/read) in every phase; simple regions keep the symbolic-iteration model (any schedule, any team size).  The sequential
  semantics used by the other checks got the same faithful team for hand-partitioned regions (a team of one would run only thread 0's share).
  A `nowait` planted on the first loop of `R10-r1` is reported as a race between members 0 and 1 in phase 0.
* **Bit tricks the integer encoding could only over-approximate** (`R4-r2`: carry/borrow as msb of (a&b)|((a|b)&~s), selection by `blendv`):
  a bit field of and/or/xor/not is the and/or/xor/not of the bit fields, and the top bit of a word is a comparison, so sign tests and single-bit
  extracts of bitwise combinations are now encoded *exactly*; where approximation remains, a `sat` answer is no longer final: the portfolio
  continues with a bit-precise member (`bvexact.py`, 256-bit two's complement, `x mod p` by folding with 2^64 = 2^32-1) and with cvc5 on the
  exact integer encoding (raw assertions: a z3 solver that has run exports its preprocessed state, which cvc5 solves far worse).
* **Helpers the checker has no contract for** (`R3-r1` own add64_/mul64_, `R6-r2` portable lane operations, `R1-r2` closed-form neg): F mode
  stopped at the first bit-level operation on a field word.  `autosum.py` now infers a contract on the spot: footprint from concrete runs in a
  bit-precise sibling world, outputs fitted as polynomials of degree <= 2 in the input classes mod p (linear algebra over F_p), and the fitted
  statement *proved* for all 64-bit words before it is used; the obligation then restarts.  The fit only finds the statement; soundness is the
  solver proof.  Evidence lists every inferred contract (`coverage.auto_contracts`).
* **Restructured call graphs** (`R4-r3`: matrix kernels through templates that call the lane kernels directly): every lane kernel of C02/C11 is
  now summarised in the matrix proofs (and proved in the same run), and F mode has contracts for the wide products
  (mult_*_72/_128 -> (high, low) with high*2^64 + low = a*b, plain 64-bit adds of bounded high words, reduce_*).
* **Interpreter gaps**: `blendv`, `movmsk`, `*.with.overflow`, symbolic `ctlz/cttz`, `switch` on a symbolic value, i128 loads/stores,
  pointer differences after `ptrtoint`, `load atomic`, `__cxa_guard_*`, `mpz_size/getlimbn/fdiv_ui` with the `_mp_size` field kept in the
  struct, `std::to_string`, offsets that are symbolic terms but fixed by the path condition, vector `umin/umax`; PTX with named registers,
  `setp.<cmp>`, `selp`, `mul.wide`, logic/shift/`cvt`, guarded flag updates, and a general patcher that doubles the percent sign of literal registers in asm statements with operands
  (second batch, CUDA header); builds are serialised by a file lock (two checks started at once on a tree nobody had built yet used to delete
  each other's build directory).

Three refactorings remain inconclusive for one obligation each and say so (exit 2, never an alarm): the schoolbook cubic product with lazy
reduction (`R5-r2`: the contract of its core is conjectured correctly by the fit but not proved within the budget by z3, z3 5.1 or cvc5), the
bit-index `exp` loop (`R1-r2`: every counter value is a separate inductive step; 36 of 64 are proved before the budget ends) and the dedicated
CUDA squaring on the pre-Volta path (`R9-r2`).

Outcome (`./refcheck.sh`, quick tier, last full run recorded in `refactorings/results.txt`; after the engine changes of seeded rounds 4 and 5 -
caller-buffer extent query, GMP contracts, final-memory comparison, per-coefficient witnesses, if-clause stubs and the 256-row tree - the eleven
refactorings that touch those paths were re-run: no VIOLATION, no inconclusive answer, `refactorings/results_after_round5.txt`):

| refactoring | what it restructures | checks run | result |
|---|---|---|---|
%s

%s
'''
def main():
    res = {}
    rp = os.path.join(V, 'refactorings', 'results.txt'); tally = ''
    if os.path.exists(rp):
        for ln in open(rp):
            m = re.match(r'(\S+) check=(C\d\d) rc=(\d+) violations=(\d+)\s*(\S*)', ln)
            if m: res.setdefault(m.group(1), []).append((m.group(2), int(m.group(3)), int(m.group(4)), m.group(5)))
            if ln.startswith('REFCHECK'): tally = ln.strip()
    rows = []
    for d in sorted(glob.glob(os.path.join(V, 'refactorings', '*', 'meta.json'))):
        m = json.load(open(d)); r = res.get(m['name'], [])
        if r: out = ', '.join('%s: %s' % (c, 'exit 0' if rc == 0 else ('FALSE ALARM' if (rc == 1 or nv) else 'exit 2 (inconclusive)')) for c, rc, nv, tag in r)
        else: out = 'not run'
        if m['expected'] != 'pass': out += ' - ' + m['expected'].replace('|', '/')
        rows.append('| `%s` | %s | %s | %s |' % (m['name'], m['area'].replace('|', '/'), ' '.join(m['checks']), out))
    text = TEXT % ('\n'.join(rows), ('Tally of the last run: `%s`.' % tally) if tally else '')
    p = os.path.join(V, 'DESIGN.md'); s = open(p).read()
    i = s.find('### 8.6 ')
    if i >= 0: s = s[:i]
    open(p, 'w').write(s.rstrip() + '\n\n' + text)
if __name__ == '__main__': main()
