# Semantics of the x86-64 AT&T inline-asm subset present in the repository (scalar add/sub/mul).
import z3, re
from .interp import is_c, tobv, mask, binop, icmp, Unsupported, FieldWordOp, Violation, I, FV, Half, POISON

class X86:
    def run(s, it, ins, args):
        w = it.w
        if any(isinstance(a, (FV, Half)) for _, a in args): raise FieldWordOp('inline asm on a field word')
        text = ins.asm[1:-1].replace('\\0A', '\n').replace('\\09', '\t').replace('$$', '\x00')
        cons = ins.constraints[1:-1].split(',')
        outs = [c for c in cons if c.startswith('=')]; ins_ = [c for c in cons if not c.startswith('=') and not c.startswith('~')]
        if len(outs) != 1: raise Unsupported('asm with %d outputs' % len(outs))
        regs = {}; opnd = {}
        for i, c in enumerate(outs): opnd[i] = ('reg', 'out%d' % i); regs['out%d' % i] = None
        for j, c in enumerate(ins_):
            i = len(outs) + j; t, v = args[j]
            if v is POISON: raise Unsupported('asm on undef')
            if c.startswith('*m') or c == 'm': opnd[i] = ('mem', v, t)
            elif c.isdigit(): regs['out%s' % c] = v; opnd[i] = ('reg', 'out%s' % c)
            else: opnd[i] = ('reg', 'in%d' % j); regs['in%d' % j] = v
        fixed = {}
        for i, c in enumerate(outs):
            m = re.search(r'\{(\w+)\}', c)
            if m:
                r = m.group(1); r = {'ax': 'rax', 'bx': 'rbx', 'cx': 'rcx', 'dx': 'rdx'}.get(r, r); fixed[r] = 'out%d' % i
        R = {}; CF = [0]
        def canon(r):
            r = r.lstrip('%')
            m32 = {'eax': 'rax', 'ebx': 'rbx', 'ecx': 'rcx', 'edx': 'rdx'}
            if r in m32: return m32[r], 32
            if re.fullmatch(r'r(ax|bx|cx|dx|si|di|8|9|1[0-5])', r): return r, 64
            raise Unsupported('x86 register ' + r)
        def rd(o):
            o = o.strip()
            if o.startswith('\x00'): return int(o[1:], 0) & mask(64)
            if o.startswith('$'):
                kind = opnd[int(o[1:])]
                if kind[0] == 'reg': return regs[kind[1]]
                return w.load(kind[1], I(64))
            r, wd = canon(o)
            if r in fixed: v = regs[fixed[r]]
            else:
                if r not in R: raise Unsupported('read of unset register ' + r)
                v = R[r]
            if v is None: raise Unsupported('read of unset output register')
            if wd == 32: return (v & mask(32)) if is_c(v) else z3.ZeroExt(32, z3.Extract(31, 0, v))
            return v
        def wr(o, v):
            o = o.strip()
            if o.startswith('$'):
                kind = opnd[int(o[1:])]
                if not (kind[0] == 'reg' and kind[1].startswith('out')): raise Unsupported('asm writes an input operand')
                regs[kind[1]] = v; return
            r, wd = canon(o)
            if wd == 32: v = (v & mask(32)) if is_c(v) else z3.ZeroExt(32, z3.Extract(31, 0, v))
            if r in fixed: regs[fixed[r]] = v
            else: R[r] = v
        lines = [l.strip() for l in text.split('\n') if l.strip()]
        pc = 0; skip_to = None; guard = None
        while pc < len(lines):
            l = lines[pc]; pc += 1
            m = re.match(r'^(\w+):\s*(.*)$', l)
            if m:
                if skip_to == m.group(1): guard = None; skip_to = None
                l = m.group(2).strip()
                if not l: continue
            mn, _, rest = l.partition(' '); mn = mn.strip(); ops = [x.strip() for x in rest.split(',')] if rest.strip() else []
            def commit(dst, val):
                if guard is None: wr(dst, val)
                else:
                    old = rd(dst); wr(dst, z3.If(guard, tobv(old, 64), tobv(val, 64)))
            if mn in ('mov', 'movq', 'movl'): commit(ops[1], rd(ops[0]))
            elif mn in ('xor', 'xorq'):
                a = rd(ops[0]) if ops[0] != ops[1] else 0
                commit(ops[1], 0 if ops[0] == ops[1] else binop('xor', rd(ops[1]), a, 64))
                if guard is None: CF[0] = 0
            elif mn in ('add', 'sub', 'addq', 'subq'):
                m_ = mn[:3]; a = rd(ops[0]); b = rd(ops[1]); r = binop(m_, b, a, 64)
                cf = icmp('ult', r, b, 64) if m_ == 'add' else icmp('ult', b, a, 64)
                commit(ops[1], r)
                if guard is None: CF[0] = cf
                else: CF[0] = None     # flags after conditionally executed arithmetic are not modelled
            elif mn in ('mul', 'mulq'):
                if guard is not None: raise Unsupported('guarded mul')
                a = rd('%rax'); b = rd(ops[0])
                if is_c(a) and is_c(b): pr = a * b; lo = pr & mask(64); hi = pr >> 64
                else:
                    pr = z3.ZeroExt(64, tobv(a, 64)) * z3.ZeroExt(64, tobv(b, 64)); lo = z3.Extract(63, 0, pr); hi = z3.Extract(127, 64, pr)
                wr('%rax', lo); wr('%rdx', hi); CF[0] = None
            elif mn in ('div', 'divq'):
                # unsigned divide rdx:rax by the operand: quotient -> rax, remainder -> rdx; #DE (SIGFPE) if the divisor is 0 or the quotient needs more than 64 bits
                if guard is not None: raise Unsupported('guarded div')
                lo_ = rd('%rax'); hi_ = rd('%rdx'); d = rd(ops[0])
                if is_c(lo_) and is_c(hi_) and is_c(d):
                    if d == 0 or hi_ >= d: raise Violation('sigfpe', 'divq traps: divisor %#x, dividend high word %#x' % (d, hi_))
                    N = (hi_ << 64) | lo_; wr('%rax', N // d); wr('%rdx', N % d)
                else:
                    D = tobv(d, 64); H = tobv(hi_, 64); L = tobv(lo_, 64)
                    if it.branch(z3.Or(D == 0, z3.UGE(H, D))): raise Violation('sigfpe', 'divq traps (divide error) for some operands: quotient does not fit 64 bits or divisor is zero')
                    N = z3.Concat(H, L); D128 = z3.ZeroExt(64, D)
                    wr('%rax', z3.Extract(63, 0, z3.UDiv(N, D128))); wr('%rdx', z3.Extract(63, 0, z3.URem(N, D128)))
                CF[0] = None
            elif mn in ('rol', 'rolq'):
                n = rd(ops[0]); v = rd(ops[1])
                if not is_c(n): raise Unsupported('variable rotate')
                n %= 64
                commit(ops[1], ((v << n) | (v >> (64 - n))) & mask(64) if is_c(v) else z3.Concat(z3.Extract(63 - n, 0, v), z3.Extract(63, 64 - n, v)))
            elif mn == 'cmovc':
                a = rd(ops[0]); b = rd(ops[1]); c = CF[0]
                if c is None: raise Unsupported('CF undefined')
                commit(ops[1], (a if c else b) if is_c(c) else z3.If(c, tobv(a, 64), tobv(b, 64)))
            elif mn == 'jnc':
                c = CF[0]; tgt = ops[0].rstrip('fb')
                if c is None: raise Unsupported('CF undefined')
                if guard is not None: raise Unsupported('nested jump')
                if is_c(c):
                    if not c:
                        while pc < len(lines) and not re.match(r'^%s:' % re.escape(tgt), lines[pc]): pc += 1
                else: guard = z3.Not(c); skip_to = tgt
            else: raise Unsupported('x86 mnemonic ' + mn)
        if skip_to is not None: raise Unsupported('jump target not found')
        return regs['out0']
