# regenerates section 8.2 of DESIGN.md (measured table) from evidence/*.json:  python3-vt -m gv.measured
import json, glob, os
V = os.path.dirname(os.path.dirname(os.path.abspath(__file__)))
NOTES = {
 'C01': 'op x operand form x aliasing; perturbed-specification twins; native-vs-interpreter validation vectors',
 'C02': 'all lanes symbolic; documented operand assumptions are preconditions whose satisfiability is checked',
 'C11': 'as C02 on the AVX512 configuration (8 lanes)',
 'C03': 'symbolic classes: object 2^s, s<=5, n<=2^s, size 0, ncols 0..3, dst in {src, other, NULL}, buffer or not, nphase/nblock over all uint64 (classes proved to cover), nThreads rotated 1..; concrete-schedule classes n = 64..256; contracts re-proved bit-precisely',
 'C04': 'as C03 plus composed NTT/INTT round trips and the extend flag; bit-precise small-class fallback when the field-level run meets a bit manipulation',
 'C05': 'N <= N_ext, in place / distinct, ncols 1..3, nblock; large concrete-schedule classes',
 'C06': 'three permutations + hash variants against the specification with shared product atoms; kernel contracts; operand-assumption failures are turned into states by kernel-level witnesses and first-half inversion',
 'C07': 'lengths 0..67, 255..258, 2047, 2049, 65537, 65545 for the three variants; permutation as uninterpreted function',
 'C08': 'row counts up to 64, column counts incl. 0, batch variants, default wrappers in both build configurations, getTreeNumElements on integers',
 'C09': 'ring identities in F_p[x]/(x^3-x-1) with real products; batchInverse 1..4; string/scalar entry points',
 'C10': 'loop-cut inductive steps for inv and exp; totality (no trap path of div)',
 'C12': 'every outlined region: one symbolic iteration pair, byte-range overlap queries; parcpy/parSetZero with symbolic size and thread count on integers',
 'C13': 'compositional over lane contracts; falls back to bit-precise end-to-end with concrete coefficient patterns if a callee assumption is not implied',
 'C14': 'as C13 on the AVX512 configuration, two interleaved states',
 'C15': 'GMP contracts on integers, gmpxx interpreted; string conversions through strconv stubs; predicates on every representation',
 'C16': 'census of overloads, roles inferred, unbounded arrays with symbolic strides/offsets; kernel fills + sparse bit-precise search for operand-assumption failures',
 'C17': 'as C16 for base-field wrappers; parcpy/parSetZero chunk arithmetic and data movement',
 'C18': 'all harnesses of the other properties re-run reporting only safety events (bounds, initialisation, allocator kind, UB of concrete arithmetic)',
 'C19': 'reachable object-state closure (BFS over state signatures) x method x size',
 'C20': 'device IR for sm_60 and sm_70 through the PTX interpreter; tables compared with the CPU tables',
}
def thorough_summary():
    import re
    p = os.path.join(V, 'thorough_last.txt')
    if not os.path.exists(p): return 'not recorded'
    out = []
    for ln in open(p):
        m = re.search(r'(C\d\d) tier=thorough obligations=(\d+) proved=(\d+) .*?violations=(\d+) inconclusive=(\d+) .*?wall=([\d.]+)s', ln)
        if m: out.append('%s %s/%s in %.0f s%s' % (m.group(1), m.group(3), m.group(2), float(m.group(6)), '' if (m.group(4) == '0' and m.group(5) == '0') else ' (!)'))
    return '; '.join(out) if out else 'not recorded'

def main():
    rows = []
    for f in sorted(glob.glob(os.path.join(V, 'evidence', 'C*.json'))):
        e = json.load(open(f)); c = e['coverage']
        rows.append('| %s | %s | %d / %d | %d + %d | %.1f | %.0f | %s |' % (e['property_id'], e['tier'], c['discharged'], c['obligations'], c.get('solver_queries', 0), c.get('path_feasibility_queries', 0), c.get('solver_time_s', 0) + c.get('path_feasibility_time_s', 0), e.get('wall_s', 0), NOTES.get(e['property_id'], '')))
    text = '''### 8.2 Per property: what runs, measured (unchanged tree, 16 cores; generated from evidence/*.json by `python3-vt -m gv.measured`)

| id | tier | discharged / obligations | solver queries (goal + path feasibility) | solver s | wall s | what the obligations are |
|----|------|--------------------------|----------------|----------|--------|--------------------------|
%s

"Solver s" is the time inside z3/cvc5 summed over worker processes; wall time includes the IR build (cached by content hash of /repo/src),
symbolic execution and native confirmation runs.  Exact bounds per property are in `coverage.bounds` of each evidence file.

Thorough tier, last full run on the unchanged tree (`./runall.sh thorough`, recorded in `thorough_last.txt`): %s.

''' % ('\n'.join(rows), thorough_summary())
    p = os.path.join(V, 'DESIGN.md'); s = open(p).read()
    i = s.find('### 8.2 '); j = s.find('### 8.3 ')
    assert 0 <= i < j
    open(p, 'w').write(s[:i] + text + s[j:])
if __name__ == '__main__': main()
