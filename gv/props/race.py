# C12 machinery — race freedom of every '#pragma omp parallel for' region, from the OpenMP-outlined IR (-fopenmp).
#  Each region instance met during a (concrete-shape) run of the enclosing function is analysed by executing its outlined function for ONE
#  SYMBOLIC ITERATION (the __kmpc_for_static_init stub hands the team member the iteration range [i, i]); every access to an object that existed
#  before the fork is logged with its symbolic byte range; a second copy with the iteration variable renamed gives the other team member.
#  Obligation: no two distinct iterations have overlapping ranges on the same object with at least one write (Bernstein); then every assignment of
#  iterations to threads and every interleaving equals the sequential order.
import z3, time
from .. import core, smt, kern, stubs, bv2int
from ..interp import *
from ..runner import Ob, ok, viol, inconc
from ..kern import P

class Region:
    def __init__(s, **kw): s.__dict__.update(kw)

def split_off(off):
    """(key, const): symbolic part (string key, term) and constant part of a byte offset"""
    if is_c(off): return ('', None), off
    t = z3.simplify(off)
    if z3.is_bv_value(t): return ('', None), t.as_long()
    if t.decl().kind() == z3.Z3_OP_BADD:
        cs = [c for c in t.children() if z3.is_bv_value(c)]; rest = [c for c in t.children() if not z3.is_bv_value(c)]
        if cs and rest:
            c = sum(x.as_long() for x in cs) & mask(64)
            if c >> 63: c -= 1 << 64
            base = rest[0] if len(rest) == 1 else z3.simplify(z3.Sum(rest) if False else functools_reduce_add(rest))
            return (str(base), base), c
    return (str(t), t), 0
def functools_reduce_add(xs):
    r = xs[0]
    for x in xs[1:]: r = r + x
    return r

def merge(accs):
    """accesses [(kind,obj,off,len)] -> per (obj, kind, symbolic part) merged contiguous intervals [(base term|None, const, len)]"""
    groups = {}
    for kind, obj, off, n in accs:
        if not is_c(n):
            groups.setdefault((id(obj), kind, 'symlen%d' % len(groups)), dict(obj=obj, kind=kind, base=off, ivs=[(0, n)], symlen=True)); continue
        (ks, base), c = split_off(off)
        g = groups.setdefault((id(obj), kind, ks), dict(obj=obj, kind=kind, base=base, ivs=[], symlen=False)); g['ivs'].append((c, n))
    out = []
    for g in groups.values():
        if g['symlen']: out.append((g['obj'], g['kind'], g['base'], 0, g['ivs'][0][1])); continue
        ivs = sorted(set(g['ivs'])); cur = None
        for c, n in ivs:
            if cur is None: cur = [c, c + n]
            elif c <= cur[1]: cur[1] = max(cur[1], c + n)
            else: out.append((g['obj'], g['kind'], g['base'], cur[0], cur[1] - cur[0])); cur = [c, c + n]
        if cur is not None: out.append((g['obj'], g['kind'], g['base'], cur[0], cur[1] - cur[0]))
    return out

def ext65(base, c):
    b = z3.ZeroExt(2, tobv(base, 64)) if base is not None else z3.BitVecVal(0, 66)
    return b + z3.BitVecVal(c % (1 << 66), 66)
def len65(n): return z3.BitVecVal(n, 66) if is_c(n) else z3.ZeroExt(2, n)

def analyse_region(w, it, micro, caps, label):
    """one symbolic iteration of the outlined function; returns Region with per-path access summaries"""
    water = Obj.cnt
    roots = [c.obj for c in caps if isinstance(c, Ptr) and c.obj is not None] + list(getattr(w, 'roots', []))
    objs = w.all_objs(roots)
    snap = {id(o): (o, dict(o.cells), o.size) for o in objs}
    ivar = z3.BitVec('omp_i', 64); paths = []; work = [[]]; events = []
    H = w.hooks; old_init = {k: H.get(k) for k in ('@__kmpc_for_static_init_8u', '@__kmpc_for_static_init_8', '@__kmpc_for_static_init_4u', '@__kmpc_for_static_init_4')}
    info = {}
    t0 = time.time()
    while work:
        dec = work.pop()
        for (o, cells, sz) in snap.values(): o.cells = dict(cells); o.size = sz
        sub = Interp(w, dec); sub.solver = z3.Solver(); sub.solver.set('timeout', 60000); sub.solver.add(it.pc)
        def static_init(bits):
            def h(it_, a):
                loc, gtid, sched, plast, plo, pup, pstr, incr, chunk = a
                was = w.race; w.race = False
                lb0 = w.load(plo, I(bits)); ub0 = w.load(pup, I(bits)); iv = ivar if bits == 64 else z3.Extract(bits - 1, 0, ivar)
                sub.pc += [z3.ULE(tobv(lb0, bits), iv), z3.ULE(iv, tobv(ub0, bits))]
                if bits < 64: sub.pc.append(z3.ULT(ivar, bvv(1 << bits, 64)))
                info['lb'] = lb0; info['ub'] = ub0; info['sched'] = sched
                w.store(plo, I(bits), iv); w.store(pup, I(bits), iv); w.store(pstr, I(bits), 1 << (bits - 2)); w.store(plast, I(32), 0)
                w.race = was; return None
            return h
        for k, b in (('@__kmpc_for_static_init_8u', 64), ('@__kmpc_for_static_init_8', 64), ('@__kmpc_for_static_init_4u', 32), ('@__kmpc_for_static_init_4', 32)): H[k] = static_init(b)
        gt = Ptr(Obj(8, 'gtid', 8, 'alloca'), 0); gt.obj.cells[0] = 0
        w.acc = []; w.race = True; status = 'ok'
        try: sub.call(micro, [gt, gt] + list(caps))
        except Violation as e: status = 'violation'; events.append((list(sub.pc), e))
        except Terminated as e: status = 'terminated'; events.append((list(sub.pc), e))
        finally: w.race = False
        shared = [(k, o, off, n) for (k, o, off, n) in w.acc if o is not None and o.id <= water]
        paths.append(Region(pc=list(sub.pc), acc=merge(shared), raw=len(shared), status=status))
        work += sub.worklist
        if len(paths) > 64: raise Unsupported('more than 64 paths in a parallel region')
    for (o, cells, sz) in snap.values(): o.cells = cells; o.size = sz
    for k, v in old_init.items():
        if v is None: H.pop(k, None)
        else: H[k] = v
    return Region(label=label, micro=micro, paths=paths, ivar=ivar, events=events, info=info, t=time.time() - t0, outer_pc=list(it.pc))

def rename(term, ivar, i2):
    if is_c(term) or term is None: return term
    return z3.substitute(term, (ivar, i2))

def race_query(reg, timeout=120):
    """returns (verdict, detail, stats): 'free' | 'race' | 'unknown'"""
    i1 = reg.ivar; i2 = z3.BitVec('omp_j', 64); npairs = 0; nq = 0
    for p1 in reg.paths:
        for p2 in reg.paths:
            dis = []
            for (o1, k1, b1, c1, n1) in p1.acc:
                for (o2, k2, b2, c2, n2) in p2.acc:
                    if o1 is not o2 or (k1 == 'R' and k2 == 'R'): continue
                    s1 = ext65(b1, c1); e1 = s1 + len65(n1); s2 = ext65(rename(b2, i1, i2), c2); e2 = s2 + len65(rename(n2, i1, i2))
                    cond = [z3.ULT(s1, e2), z3.ULT(s2, e1)]
                    if not is_c(n1): cond.append(n1 != 0)
                    if not is_c(n2): cond.append(rename(n2, i1, i2) != 0)
                    dis.append((z3.And(cond), (o1.name, k1, k2, str(b1)[:60], c1, n1, c2, n2))); npairs += 1
            if not dis: continue
            s = z3.Solver(); s.set('timeout', timeout * 1000)
            s.add(reg.outer_pc); s.add(p1.pc); s.add([rename(c, i1, i2) for c in p2.pc]); s.add(i1 != i2); s.add(z3.Or([d for d, _ in dis]))
            t0 = time.time(); r = s.check(); nq += 1; smt.STATS['queries'] += 1; smt.STATS['solver_s'] += time.time() - t0
            if r == z3.sat:
                m = s.model(); hit = [info for d, info in dis if z3.is_true(m.eval(d, model_completion=True))]
                return 'race', dict(i=m.eval(i1, model_completion=True).as_long(), j=m.eval(i2, model_completion=True).as_long(), access=hit[:1]), dict(pairs=npairs, queries=nq)
            if r == z3.unknown: return 'unknown', 'overlap query unknown', dict(pairs=npairs, queries=nq)
    return 'free', None, dict(pairs=npairs, queries=nq)

def frame_stubs(w):
    """callees that only compute on data are replaced by frame summaries during the region analysis (data is irrelevant to the access pattern)"""
    from . import poseidon
    def frame(nread, nwrite):
        def h(it, a):
            if not w.race:
                # sequential continuation: data values never influence control flow or addresses in the builders, so the permutation is
                # replaced by a cheap stand-in with the same frame (reads nread words, writes nwrite words)
                w.load_bytes(a[1], 8 * nread); w.store_bytes(a[0], 8 * nwrite, [0] * nwrite); return None
            w.acc.append(('R', a[1].obj, a[1].off, 8 * nread)); w.acc.append(('W', a[0].obj, a[0].off, 8 * nwrite)); return None
        return h
    w.hooks[poseidon.HFR['seq']] = frame(12, 12); w.hooks[poseidon.HFR['avx']] = frame(12, 12); w.hooks[poseidon.HFR['avx512']] = frame(24, 24)
    def sc(it, a):
        if not w.race: return NotImplemented
        r, x, y = a
        for p_, k in ((x, 'R'), (y, 'R'), (r, 'W')): w.acc.append((k, p_.obj, p_.off, 8))
        return None
    for op in ('add', 'sub', 'mul'): w.hooks['@_ZN10Goldilocks3%sERNS_7ElementERKS0_S3_' % op] = sc

def region_shape(w, micro, depth=3):
    """what the outlined function (and its callees) contains: worksharing loops, barriers, single constructs, thread-id queries"""
    cache = w.__dict__.setdefault('_region_shape', {})
    if micro in cache: return cache[micro]
    sh = dict(loops=0, barriers=0, single=0, tid=0); seen = set(); todo = [(micro, 0)]
    while todo:
        fn, d = todo.pop()
        if fn in seen or fn not in w.funcs: continue
        seen.add(fn); f = w.funcs[fn]
        for lab in f.order:
            for ins in f.blocks[lab]:
                if ins.op in ('call', 'invoke') and isinstance(getattr(ins, 'callee', None), tuple) and ins.callee[0] == 'global':
                    cn = ins.callee[1]
                    if cn.startswith('@__kmpc_for_static_init'): sh['loops'] += 1
                    elif cn == '@__kmpc_barrier': sh['barriers'] += 1
                    elif cn == '@__kmpc_single': sh['single'] += 1
                    elif cn in ('@omp_get_thread_num', '@omp_get_num_threads'): sh['tid'] += 1
                    elif cn.startswith('@__kmpc_dispatch') or cn.startswith('@__kmpc_omp_task'): sh['other'] = sh.get('other', 0) + 1
                    elif d < depth and cn in w.funcs and not cn.startswith('@__kmpc'): todo.append((cn, d + 1))
    cache[micro] = sh; return sh

def analyse_team(w, it, micro, caps, T, label):
    """regions with several worksharing loops, barriers, single constructs or hand partitioning by thread number: the region is executed once per
       member of a team of T threads (static schedules as the runtime assigns them); the footprints of the team members are split into barrier
       phases and any two members must be disjoint (up to read/read) in every phase"""
    water = Obj.cnt
    roots = [c.obj for c in caps if isinstance(c, Ptr) and c.obj is not None] + list(getattr(w, 'roots', []))
    objs = w.all_objs(roots); snap = {id(o): (o, dict(o.cells), o.size) for o in objs}
    H = w.hooks; oldb = H.get('@__kmpc_barrier'); olds = H.get('@__kmpc_single'); olde = H.get('@__kmpc_end_single')
    H['@__kmpc_barrier'] = lambda it_, a: w.acc.append(('B', None, 0, 0))
    H['@__kmpc_single'] = lambda it_, a: int(getattr(w, 'omp_tid', 0) == 0)
    H['@__kmpc_end_single'] = lambda it_, a: None
    team = []; events = []; t0 = time.time()
    try:
        for tid in range(T):
            for (o, cells, sz) in snap.values(): o.cells = dict(cells); o.size = sz
            sub = Interp(w); sub.solver = z3.Solver(); sub.solver.set('timeout', 60000); sub.solver.add(it.pc); sub.pc = list(it.pc)
            gt = Ptr(Obj(8, 'gtid', 8, 'alloca'), 0); gt.obj.cells[0] = tid
            w.acc = []; w.race = True; w.omp_tid = tid; w.omp_team = T
            try: sub.call(micro, [gt, gt] + list(caps))
            except Violation as e: events.append((list(sub.pc), e))
            except Terminated as e: events.append((list(sub.pc), e))
            finally: w.race = False; w.omp_tid = 0; w.omp_team = 1
            if sub.worklist: raise Unsupported('data-dependent control flow inside a team-analysed parallel region')
            phases = [[]]
            for (k, o, off, n) in w.acc:
                if k == 'B': phases.append([]); continue
                if o is not None and o.id <= water: phases[-1].append((k, o, off, n))
            team.append([merge(ph) for ph in phases])
    finally:
        for (o, cells, sz) in snap.values(): o.cells = cells; o.size = sz
        for k, v in (('@__kmpc_barrier', oldb), ('@__kmpc_single', olds), ('@__kmpc_end_single', olde)):
            if v is None: H.pop(k, None)
            else: H[k] = v
    return Region(label=label, micro=micro, team=team, T=T, events=events, paths=[Region(raw=sum(len(ph) for ph in th), acc=[], pc=[]) for th in team], info={}, t=time.time() - t0, outer_pc=list(it.pc), ivar=None)

def team_query(reg, timeout=60):
    np_ = len(reg.team[0]); pairs = 0; nq = 0
    if any(len(th) != np_ for th in reg.team): return 'unknown', 'team members pass a different number of barriers', dict(pairs=0, queries=0)
    for ph in range(np_):
        for ta in range(reg.T):
            for tb in range(ta + 1, reg.T):
                dis = []
                for (o1, k1, b1, c1, n1) in reg.team[ta][ph]:
                    for (o2, k2, b2, c2, n2) in reg.team[tb][ph]:
                        if o1 is not o2 or (k1 == 'R' and k2 == 'R'): continue
                        pairs += 1
                        if b1 is None and b2 is None and is_c(n1) and is_c(n2):
                            if c1 < c2 + n2 and c2 < c1 + n1: return 'race', dict(i=ta, j=tb, phase=ph, access=[(o1.name, k1, k2, 'bytes [%d,%d) and [%d,%d)' % (c1, c1 + n1, c2, c2 + n2))]), dict(pairs=pairs, queries=nq)
                            continue
                        s1 = ext65(b1, c1); e1 = s1 + len65(n1); s2 = ext65(b2, c2); e2 = s2 + len65(n2)
                        dis.append((z3.And(z3.ULT(s1, e2), z3.ULT(s2, e1)), (o1.name, k1, k2, str(b1)[:60], c1, n1, c2, n2)))
                if dis:
                    s = z3.Solver(); s.set('timeout', timeout * 1000); s.add(reg.outer_pc); s.add(z3.Or([d for d, _ in dis])); r = smt.check(s); nq += 1
                    if r == z3.sat:
                        m = s.model(); hit = [info for d, info in dis if z3.is_true(m.eval(d, model_completion=True))]
                        return 'race', dict(i=ta, j=tb, phase=ph, access=hit[:1]), dict(pairs=pairs, queries=nq)
                    if r == z3.unknown: return 'unknown', 'overlap query unknown', dict(pairs=pairs, queries=nq)
    return 'free', None, dict(pairs=pairs, queries=nq)

def setup(ctx, mods):
    w = core.world(ctx.bdir, mods, key='race'); w.hooks = dict(w.base_hooks); stubs.seq_fork(w); frame_stubs(w)
    w.regions = []; w.roots = []; w.concretize_div = False; w.no_seq = False; w.req_threads = None
    seq = w.hooks['@__kmpc_fork_call']
    def fork(it, a):
        micro = a[2].name if isinstance(a[2], FnPtr) else a[2]; caps = list(a[3:])
        sh = region_shape(w, micro)
        simple = sh['loops'] == 1 and not (sh['barriers'] > 1 or sh['single'] or sh['tid'] or sh.get('other'))
        if simple:
            reg = analyse_region(w, it, micro, caps, getattr(w, 'region_label', '?'))
            w.regions.append(reg)
        else:
            # team sizes: the one the code asks for (if concrete) and two small ones, so that uneven splits occur
            req = w.req_threads; w.req_threads = None
            Ts = []
            if req is not None and is_c(req) and 1 < req < 2**31: Ts.append(min(int(req), 8))
            for t_ in (2, 3):
                if t_ not in Ts: Ts.append(t_)
            for T in Ts: w.regions.append(analyse_team(w, it, micro, caps, T, getattr(w, 'region_label', '?')))
            if req is not None: w.omp_calls.append(('num_threads', req))
        if getattr(w, 'no_seq', False): return None
        return seq(it, a)
    w.hooks['@__kmpc_fork_call'] = fork
    def push(it, a): w.req_threads = a[2]; return None
    w.hooks['@__kmpc_push_num_threads'] = push
    return w

def judge(regions, desc):
    """all region instances of one run -> result dict"""
    tot = dict(regions=0, paths=0, accesses=0, pairs=0, queries=0)
    for reg in regions:
        tot['regions'] += 1; tot['paths'] += len(reg.paths); tot['accesses'] += sum(p.raw for p in reg.paths)
        for pc, e in reg.events:
            return viol('region/%s' % getattr(e, 'kind', 'terminated'), '%s: %s inside parallel region %s' % (desc, e, reg.micro), replay=dict(event=str(e), desc=desc))
        if getattr(reg, 'team', None) is not None:
            v, det, st = team_query(reg); tot['pairs'] += st['pairs']; tot['queries'] += st['queries']
            if v == 'race': return viol('race', '%s: members %d and %d of a team of %d threads perform conflicting accesses in barrier phase %d of parallel region %s: %s' % (desc, det['i'], det['j'], reg.T, det['phase'], reg.micro, det['access']), replay=dict(event='race', desc=desc, detail=str(det)))
            if v == 'unknown': return inconc('%s: %s' % (desc, det))
            continue
        v, det, st = race_query(reg); tot['pairs'] += st['pairs']; tot['queries'] += st['queries']
        if v == 'race': return viol('race', '%s: iterations %d and %d of parallel region %s (loop bounds %s..%s) perform conflicting accesses: %s' % (desc, det['i'], det['j'], reg.micro, reg.info.get('lb'), reg.info.get('ub'), det['access']), replay=dict(desc=desc, region=reg.micro, i=det['i'], j=det['j'], access=str(det['access'])))
        if v == 'unknown': return inconc('%s: %s' % (desc, det))
    if not regions: return inconc('%s: no parallel region reached' % desc)
    return ok('%(regions)d region instance(s), %(paths)d path(s), %(accesses)d shared accesses per symbolic iteration, %(pairs)d range pairs, %(queries)d overlap queries: no two distinct iterations conflict' % tot, sample=dict(call=desc, **tot))

# ---------------------------------------------------------------- drivers
from . import ntt as nttp
def ob_ntt(ctx, kind, s_, d, ncols, nphase, nblock, dstmode, buf, a=None):
    w = setup(ctx, ['ntt_omp', 'gbf_omp']); it = Interp(w)
    this = Obj(w.sizeof(Ty('named', name='%class.NTT_Goldilocks')), 'this', 8, 'arg'); w.roots = [this]
    it.call(nttp.CT, [Ptr(this, 0), 1 << s_, 3, 1])
    desc = nttp.describe(kind, s_, d, ncols, dstmode, buf, a) + ' [nphase=%d, nblock=%d]' % (nphase, nblock)
    try:
        if kind in ('ntt', 'intt'):
            n = 1 << d; src = core.obj_words('src', [0] * (n * ncols), 8); w.roots.append(src)
            dst = Ptr(core.obj_words('dst', [0] * (n * ncols), 8), 0) if dstmode == 'other' else (Ptr(src, 0) if dstmode == 'same' else NULL)
            if dst.obj is not None: w.roots.append(dst.obj)
            bufp = Ptr(core.obj_words('buffer', [0] * (n * ncols), 8), 0) if buf else NULL
            if buf: w.roots.append(bufp.obj)
            if kind == 'ntt': it.call(nttp.NTT, [Ptr(this, 0), dst, Ptr(src, 0), n, ncols, bufp, nphase, nblock, 0, 0])
            else: it.call(nttp.INTT, [Ptr(this, 0), dst, Ptr(src, 0), n, ncols, bufp, nphase, nblock, 0])
        else:
            N = 1 << a; NE = 1 << d; inplace = dstmode == 'same'
            inp = core.obj_words('in', [0] * ((NE if inplace else N) * ncols), 8); out = inp if inplace else core.obj_words('out', [0] * (NE * ncols), 8); w.roots += [inp, out]
            bufp = Ptr(core.obj_words('buffer', [0] * (NE * ncols), 8), 0) if buf else NULL
            it.call(nttp.EXT, [Ptr(this, 0), Ptr(out, 0), Ptr(inp, 0), NE, N, ncols, bufp, nphase, nblock])
    except Violation as e: return viol('seq/%s' % e.kind, '%s: %s' % (desc, e.msg), replay=dict(event=str(e), desc=desc))
    return judge(w.regions, desc)

def ob_tree(ctx, var, rows, cols, dim, batch, nthreads):
    from . import poseidon
    cfg = 'omp512' if var == 'avx512' else 'omp'
    w = setup(ctx, ['pos_' + cfg, 'gbf_' + cfg]); it = Interp(w)
    n = rows * cols * dim; inp = core.obj_words('input', [0] * n, 8); tree = core.obj_words('tree', [0] * (4 * (2 * rows - 1)), 8); w.roots = [inp, tree]
    name = ('merkletree_batch' if batch is not None else 'merkletree') + {'seq': '_seq', 'avx': '_avx', 'avx512': '_avx512'}[var]
    desc = '%s(num_cols=%d, num_rows=%d%s, nThreads=%d, dim=%d)' % (name, cols, rows, (', batch_size=%d' % batch) if batch is not None else '', nthreads, dim)
    try:
        if batch is None: it.call(poseidon.MT[var], [Ptr(tree, 0), Ptr(inp, 0), cols, rows, nthreads, dim])
        else: it.call(poseidon.MTB[var], [Ptr(tree, 0), Ptr(inp, 0), cols, rows, batch, nthreads, dim])
    except Violation as e: return viol('seq/%s' % e.kind, '%s: %s' % (desc, e.msg), replay=dict(event=str(e), desc=desc))
    return judge(w.regions, desc)

# ---------------------------------------------------------------- parcpy / parSetZero: symbolic size and thread count
def ob_parcpy_chunks(ctx, which):
    from .C17 import PARCPY, PARZERO
    w = setup(ctx, ['gbf_omp'])
    size = z3.BitVec('size', 64); nt = z3.BitVec('num_threads', 32)
    dst = Obj(None, 'dst', 8, 'arg'); src = Obj(None, 'src', 8, 'arg')
    def go(it):
        w.regions = []; w.roots = [dst, src]; w.no_seq = True
        it.pc.append(z3.ULT(size, bvv(1 << 60, 64)))
        if which == 'parcpy': it.call(PARCPY, [Ptr(dst, 0), Ptr(src, 0), size, nt])
        else: it.call(PARZERO, [Ptr(dst, 0), size, nt])
        return list(w.regions)
    try: allp = explore(w, go, max_paths=16)
    except Unsupported as e: return inconc('%s: %s' % (which, e))
    regs = []
    for p_ in allp:
        if p_.status != 'ok': return inconc('%s: a path before the parallel region ends in %s' % (which, p_.result))
        if not p_.result:
            # a path without parallel region may only be taken when there is nothing to transfer
            r0 = smt.prove(lambda tr: tr.val(size) == 0, assumptions=list(p_.pc), timeout=30)
            if r0.status != 'unsat': return inconc('%s: a path with size != 0 does not go through a parallel region (sequential fast path?): not analysed by this obligation (%s)' % (which, r0.status))
            continue
        regs += p_.result
    if len(regs) != 1: return inconc('%s: %d regions' % (which, len(regs)))
    reg = regs[0]; pre = [z3.ULT(size, bvv(1 << 60, 64))]
    nq = 0
    # Int-level facts about the symbolic iteration k: write range [8·off, 8·off + len)
    wr = []
    for p in reg.paths:
        for (o, k, b, c, n) in p.acc:
            if o is dst and k == 'W': wr.append((p, b, c, n))
    if not wr:
        # loop not entered on any path is only allowed for size == 0
        return inconc('%s: no write access recorded' % which)
    i1 = reg.ivar
    for p, b, c, n in wr:
        base = list(pre) + list(reg.outer_pc) + list(p.pc)
        vac = smt.prove(lambda tr: z3.BoolVal(False), assumptions=base, timeout=30)
        if vac.status != 'sat': return inconc('%s: path condition of the analysed iteration not shown satisfiable (%s)' % (which, vac.status))
        def start(tr): return tr.val(tobv(b, 64)) + c
        def ln(tr): return tr.val(tobv(n, 64))
        goals = [('chunk inside [0, size)', lambda tr: z3.And(start(tr) % 8 == 0, start(tr) + ln(tr) <= 8 * tr.val(size), ln(tr) > 0))]
        for lab, g in goals:
            r = smt.prove(g, assumptions=base, timeout=90, variants=[dict(limb_min=0, abstract=False, logic=None, share=0.5), dict(limb_min=0, abstract=False, logic='QF_NIA', share=0.5)]); nq += 1
            if r.status == 'sat': return viol('%s/chunks' % which, '%s: "%s" fails for %s' % (which, lab, r.model), replay=dict(which=which, model=r.model))
            if r.status != 'unsat': return inconc('%s: %s: %s' % (which, lab, r.info))
    # disjointness for two distinct iterations, decided on the integer encoding (assume-and-prove "no wrap" for i·ct, size - i·ct, ·8)
    i2 = z3.BitVec('omp_j', 64); NW = [dict(limb_min=0, abstract=False, logic=None, share=0.5, nowrap=True), dict(limb_min=0, abstract=False, logic='QF_NIA', share=0.5, nowrap=True)]
    for (p1, b1, c1, n1) in wr:
        for (p2, b2, c2, n2) in wr:
            b2r = rename(b2, i1, i2); n2r = rename(n2, i1, i2)
            base = list(pre) + list(reg.outer_pc) + list(p1.pc) + [rename(c_, i1, i2) for c_ in p2.pc] + [i1 != i2]
            def goal(tr):
                s1 = tr.val(tobv(b1, 64)) + c1; e1 = s1 + tr.val(tobv(n1, 64)); s2 = tr.val(tobv(b2r, 64)) + c2; e2 = s2 + tr.val(tobv(n2r, 64))
                return z3.Or(e1 <= s2, e2 <= s1)
            r = smt.prove(goal, assumptions=base, timeout=120, variants=NW); nq += 1
            if r.status == 'sat': return viol('%s/race' % which, '%s: chunks of two distinct iterations overlap: %s' % (which, r.model), replay=dict(which=which, model=r.model))
            if r.status != 'unsat': return inconc('%s: chunk disjointness: %s' % (which, r.info))
    # every element e < size is covered by the iteration W = floor(e / ct): W satisfies the loop bounds and its chunk contains e
    e_ = z3.BitVec('elem', 64); ncov = 0
    for (p1, b1, c1, n1) in wr:
        ct8 = rename(tobv(b1, 64), i1, bvv(1, 64))          # byte offset of iteration 1 = 8·ct
        W = z3.UDiv(e_ * bvv(8, 64), ct8)
        bW = rename(tobv(b1, 64), i1, W); nW = rename(tobv(n1, 64), i1, W); pcW = [rename(c_, i1, W) for c_ in p1.pc]
        base = list(pre) + list(reg.outer_pc) + [z3.ULT(e_, size), size != 0]
        def goal(tr):
            E8 = 8 * tr.val(e_); s1 = tr.val(bW) + c1
            return z3.And([tr.bool(c_) for c_ in pcW] + [s1 <= E8, E8 < s1 + tr.val(nW)])
        r = smt.prove(goal, assumptions=base, timeout=120, variants=NW); nq += 1
        if r.status == 'sat': return viol('%s/cover' % which, '%s: element %s of a buffer of %s elements (num_threads %s) is not covered by any chunk' % (which, r.model.get('elem'), r.model.get('size'), r.model.get('num_threads')), replay=dict(which=which, model=r.model))
        if r.status != 'unsat': return inconc('%s: coverage: %s' % (which, r.info))
        ncov += 1
    return ok('%s with symbolic size < 2^60 and symbolic int thread count: %d path(s); every chunk lies in [0,size), is non-empty, and chunks of distinct iterations are disjoint, and every element e < size lies in the chunk of iteration floor(e/ct) (%d queries, integer encoding with proved no-wrap side obligations)' % (which, len(reg.paths), nq),
              sample=dict(function=which, paths=len(reg.paths), queries=nq))
