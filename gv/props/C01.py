# C01 — scalar field ops exact mod p on every 64-bit representation, every aliasing pattern.
import z3, ctypes
from .. import core, smt, kern
from ..interp import *
from ..runner import Ob, ok, viol, inconc
from ..kern import P, sym

CFG = 'avx2'; MODS = ['cen_avx2', 'gbf_avx2']
E = 'Goldilocks::Element'
OPS = {  # name -> (arity, python spec)
    'add': (2, lambda a, b: a + b), 'sub': (2, lambda a, b: a - b), 'mul': (2, lambda a, b: a * b),
    'square': (1, lambda a: a * a), 'neg': (1, lambda a: -a), 'inc': (1, lambda a: a + 1), 'dec': (1, lambda a: a - 1),
    'mulScalar': (2, lambda a, b: a * b),
}
def forms(ctx):
    f = []
    for op in ('add', 'sub', 'mul'):
        f.append((op, 'ref', sym(ctx, CFG, 'Goldilocks', op, 'void (%s &, const %s &, const %s &)' % (E, E, E))))
        f.append((op, 'val', sym(ctx, CFG, 'Goldilocks', op, '%s (const %s &, const %s &)' % (E, E, E))))
    for op in ('square', 'neg'):
        f.append((op, 'ref', sym(ctx, CFG, 'Goldilocks', op, 'void (%s &, const %s &)' % (E, E))))
        f.append((op, 'val', sym(ctx, CFG, 'Goldilocks', op, '%s (const %s &)' % (E, E))))
    for op in ('inc', 'dec'):
        f.append((op, 'val', sym(ctx, CFG, 'Goldilocks', op, '%s (const %s &)' % (E, E))))
    f.append(('mulScalar', 'ref', sym(ctx, CFG, 'Goldilocks', 'mulScalar', 'void (%s &, const %s &, const uint64_t &)' % (E, E))))
    f.append(('mulScalar', 'val', sym(ctx, CFG, 'Goldilocks', 'mulScalar', '%s (const %s &, const uint64_t &)' % (E, E))))
    return f
def aliases(op, form):
    ar = OPS[op][0]
    if ar == 2 and form == 'ref': return ['distinct', 'out=a', 'out=b', 'a=b', 'all'] if op != 'mulScalar' else ['distinct', 'out=a', 'out=b']
    if ar == 2 and form == 'val': return ['distinct', 'a=b'] if op != 'mulScalar' else ['distinct']
    if form == 'ref': return ['distinct', 'out=a']
    return ['distinct']

META = dict(
    functions=['Goldilocks::add/sub/mul/square/neg/inc/dec/mulScalar (by-value and by-reference forms, x86 inline asm interpreted from the IR strings)'],
    bounds={'quick': 'none: loop-free code, all 2^64 values per operand, all aliasing patterns', 'thorough': 'same; plus cvc5 cross-check of linear obligations'},
    outside=['USE_MONTGOMERY=1 and GOLDILOCKS_DEBUG=1 configurations (not compiled by the shipped build)'],
    stubs=[], assumptions=['operands are arbitrary 64-bit words; objects passed twice model aliasing'],
    trusted_base=['x86-64 semantics of mov/add/sub/xor/mul/rol/cmovc/jnc as implemented in gv/x86asm.py'])

def _mk(op, form, alias, A, B):
    """argument builder: returns (args, outs_fn, a_term, b_term)"""
    ar = OPS[op][0]
    def mk(w):
        oa = core.obj_words('a', [A], 8); ob = core.obj_words('b', [B], 8) if ar == 2 else None; oc = Obj(8, 'c', 8)
        if alias in ('a=b', 'all'): ob = oa
        if alias in ('out=a', 'all'): oc = oa
        if alias == 'out=b': oc = ob
        if form == 'ref':
            args = [Ptr(oc, 0), Ptr(oa, 0)] + ([Ptr(ob, 0)] if ar == 2 else [])
            return args, (lambda ret: [oc.cells.get(0)])
        args = [Ptr(oa, 0)] + ([Ptr(ob, 0)] if ar == 2 else [])
        return args, (lambda ret: [ret])
    return mk

def _spec(op, tr, A, B, alias):
    if alias in ('a=b', 'all'): B = A
    if op in ('mul', 'mulScalar'): return tr.prod(A, B)[0]
    if op == 'square': return tr.prod(A, A)[0]
    a = tr.val(A); b = tr.val(B) if B is not None else None
    return {'add': lambda: a + b, 'sub': lambda: a - b, 'neg': lambda: -a, 'inc': lambda: a + 1, 'dec': lambda: a - 1}[op]()

def native_eval(ctx, op, form, fn, alias, a, b):
    """run the natively compiled real function; returns the output word"""
    ar = OPS[op][0]
    ba = ctypes.c_uint64(a); bb = ctypes.c_uint64(b if b is not None else 0); bc = ctypes.c_uint64(0)
    if alias in ('a=b', 'all'): bb = ba
    if alias in ('out=a', 'all'): bc = ba
    if alias == 'out=b': bc = bb
    f = core.nfn(ctx.bdir, CFG, fn, ctypes.c_uint64 if form == 'val' else None)
    if form == 'ref':
        f(ctypes.byref(bc), ctypes.byref(ba), *( [ctypes.byref(bb)] if ar == 2 else [])); return bc.value
    return f(ctypes.byref(ba), *([ctypes.byref(bb)] if ar == 2 else []))

def pyspec(op, alias, a, b):
    if alias in ('a=b', 'all'): b = a
    return (OPS[op][1](a, b) if OPS[op][0] == 2 else OPS[op][1](a)) % P

def ob_op(ctx, op, form, fn, alias):
    # products: which input representation suits the solver depends on how the code splits its operands (whole 64-bit words: one product atom;
    # 32-bit halves: four partial products that line up with schoolbook code); both are tried with a short budget before the full one
    plan = (('plain', 12), ('limbs', 12), ('plain', None)) if op in ('mul', 'square', 'mulScalar') else (('plain', None),)
    for mode, tmo_ in plan:
        mkw = core.bv64 if mode == 'plain' else core.limb64
        A = mkw('a'); B = mkw('b') if OPS[op][0] == 2 else None
        paths = kern.run_kernel(ctx, CFG, MODS, fn, _mk(op, form, alias, A, B))
        goal = lambda tr, ret, outs: [('out', (tr.val(outs[0]) - _spec(op, tr, A, B, alias)) % P == 0)]
        r = kern.prove_paths(ctx, paths, goal, timeout=tmo_)
        if r[0] != 'unknown': break
    oid = '%s/%s/%s' % (op, form, alias)
    if r[0] == 'unsat':
        # vacuity twin: the same goal with the expected value perturbed by one must be refutable
        twin = kern.prove_paths(ctx, paths, lambda tr, ret, outs: [('out', (tr.val(outs[0]) - _spec(op, tr, A, B, alias) - 1) % P == 0)], timeout=20)
        if twin[0] == 'unsat': return inconc('vacuous: perturbed specification also proved')
        return ok('%d paths; %s' % (len(paths), r[1]), sample={'op': op, 'form': form, 'alias': alias, 'paths': len(paths), 'twin': twin[0]}, twin=twin[0])
    if r[0] == 'sat':
        m = r[1]; a = core.limbval(m, 'a'); b = core.limbval(m, 'b') if B is not None else None
        got = native_eval(ctx, op, form, fn, alias, a, b); exp = pyspec(op, alias, a, b)
        rep = dict(op=op, form=form, fn=fn, alias=alias, a=a, b=b, expected_mod_p=exp, native_out=got)
        if got % P != exp:
            return viol('%s/%s' % (op, form), 'Goldilocks::%s (%s, %s): a=%#x b=%s -> native output %#x = %d mod p, expected %d' % (op, form, alias, a, hex(b) if b is not None else '-', got, got % P, exp), replay=rep)
        return inconc('ENCODING-MISMATCH: solver model a=%#x b=%s does not reproduce natively (out %#x)' % (a, b, got))
    if r[0] == 'event': return viol('%s/%s/event' % (op, form), 'path ends in %s: %s' % (r[1], r[2]), replay=dict(op=op, form=form, fn=fn, alias=alias, event=str(r[2])))
    return inconc(str(r[1]))

def obligations(ctx):
    obs = []
    for op, form, fn in forms(ctx):
        for al in aliases(op, form):
            obs.append(Ob('%s/%s/%s' % (op, form, al), ob_op, (op, form, fn, al)))
    return obs

VEC = [0, 1, 2, 3, 9, P - 12, P - 1, P, P + 1, 2**32 - 1, 2**32, 2**32 + 1, 2**63, 0xFFFFFFFF00000000, 0xFFFFFFFF, 2**64 - 1, 2**64 - 2, 5 * P + 1 & (2**64 - 1), 0x5555555555555555]
def validate(ctx):
    """repo test operands + boundary + seeded random values through (a) native build (b) interpreter in concrete mode (c) python spec"""
    rng = ctx.rng('C01'); n = 0; bad = []
    w = core.world(ctx.bdir, MODS)
    vec = VEC + [rng.getrandbits(64) for _ in range(12)]
    for op, form, fn in forms(ctx):
        for al in aliases(op, form):
            pairs = [(a, b) for a in vec[:19:2] for b in vec[1:19:3]] + [(rng.choice(vec), rng.choice(vec)) for _ in range(10)]
            for a, b in pairs:
                bb = b if OPS[op][0] == 2 else None
                nat = native_eval(ctx, op, form, fn, al, a, bb)
                w.reset(); w.hooks = dict(w.base_hooks); it = Interp(w)
                args, outs = _mk(op, form, al, a, bb)(w); ret = it.call(fn, args); sym_out = outs(ret)[0]
                exp = pyspec(op, al, a, bb); n += 1
                if nat != sym_out:      # native-vs-spec disagreements are left to the solver to report
                    bad.append('%s/%s/%s a=%#x b=%s native=%#x interp=%s spec=%d' % (op, form, al, a, bb, nat, sym_out, exp))
    return {'vectors': n, 'mismatches': bad}

def replay(ctx, d):
    if 'event' in d: return True, 'event replay: %s' % d['event']
    got = native_eval(ctx, d['op'], d['form'], d['fn'], d['alias'], d['a'], d['b']); exp = pyspec(d['op'], d['alias'], d['a'], d['b'])
    return got % P != exp, 'Goldilocks::%s(%s,%s) a=%#x b=%s -> %#x (= %d mod p), expected %d' % (d['op'], d['form'], d['alias'], d['a'], d['b'], got, got % P, exp)
