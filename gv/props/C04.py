# C04 — INTT is the exact inverse transform in every configuration.
from . import ntt, C03
from ..runner import Ob
META = dict(C03.META)
META['functions'] = ['NTT_Goldilocks::INTT'] + C03.META['functions']
META['bounds'] = {'quick': C03.META['bounds']['quick'] + '; composed round trips INTT(NTT(x)) and NTT(INTT(x)) for n <= 8, ncols <= 2 with independent symbolic nphase/nblock per direction',
                  'thorough': C03.META['bounds']['thorough'] + '; round trips for n <= 16, ncols <= 3'}
def obligations(ctx):
    obs = C03.obligations(ctx, 'intt', 'C04')
    D = 4 if ctx.thorough else 3; C = 3 if ctx.thorough else 2
    for order in ('intt(ntt)', 'ntt(intt)'):
        for d in range(0, D + 1):
            for ncols in range(1, C + 1):
                obs.append(Ob('roundtrip/%s/d%d/c%d' % (order, d, ncols), ntt.ob_roundtrip, (order, D, d, ncols), weight=20))
    return obs
def validate(ctx): return ntt.validate(ctx)
def replay(ctx, d): return ntt.replay(ctx, d)
