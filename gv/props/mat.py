# Shared machinery for C13 (AVX2) and C14 (AVX512): 12-wide dot / sparse / dense matrix kernels.
#  spmv_* kernels: compositional over the lane-kernel contracts of C02/C11 (re-proved in the same run); if a callee precondition cannot be
#  discharged from the contracts, the kernel is executed bit-precisely end-to-end instead.  mmult_*/dot_*: compositional over the spmv contract.
import z3, ctypes
from .. import core, smt, kern
from ..interp import *
from ..runner import Ob, ok, viol, inconc
from ..kern import P
from . import lanes
from .lanes import Z, Py, cong, M64

class BC:
    """contract application in B mode: fresh outputs + assumptions; callee preconditions become pending obligations"""
    def __init__(s): s.assume = []; s.pending = []; s.used = []; s.n = 0
    def lane_hook(s, w, fn, name, spec, n):
        def h(it, args):
            s.n += 1; k = s.n
            ins = {}; outs = []; oi = 0
            for r, p in zip(spec['args'], args):
                if r == 'o': continue
                ins[r] = w.load_bytes(p, 8 * n)
            for r, p in zip(spec['args'], args):
                if r != 'o': continue
                ov = [z3.BitVec('c%d_%s_o%d_%d' % (k, name, oi, i), 64) for i in range(n)]; outs.append(ov); oi += 1
                w.store_bytes(p, 8 * n, list(ov))
            for i in range(n):
                li = {nm: ins[nm][i] for nm in ins}; lo = [o[i] for o in outs]
                for nm, v in li.items():
                    if not (is_c(v) or (z3.is_expr(v) and z3.is_bv(v))): raise Unsupported('contract %s on non-word operand' % name)
                li = {nm: tobv(v, 64) for nm, v in li.items()}
                if spec['pre']: s.pending.append(('%s#%d lane %d: %s' % (name, k, i, spec['doc']), len(s.assume), (lambda li: lambda tr: spec['pre'](Z(tr, li, None)))(li)))
                s.assume.append((lambda li, lo: lambda tr: spec['goal'](Z(tr, li, lo)))(li, lo))
            s.used.append(name); return None
        w.hooks[fn] = h

def CONTRACT_KERNELS(n):
    sfx = '_avx512' if n == 8 else '_avx'
    return ['mult' + sfx, 'square' + sfx, 'add' + sfx, 'sub' + sfx, 'mult' + sfx + '_8', 'mult' + sfx + '_72', 'mult' + sfx + '_128', 'reduce' + sfx + '_96_64', 'reduce' + sfx + '_128_64'] + \
           (['add_avx512_b_c', 'sub_avx512_b_c'] if n == 8 else ['add_avx_b_small'])

def kernels(v512):
    """name -> dict(kind, eight, aligned)"""
    s = 'avx512' if v512 else 'avx'
    K = {}
    K['spmv_%s_4x12' % s] = dict(kind='spmv', eight=False)
    K['spmv_%s_4x12_8' % s] = dict(kind='spmv', eight=True)
    K['mmult_%s_4x12' % s] = dict(kind='mm4', eight=False, sp='spmv_%s_4x12' % s)
    K['mmult_%s_4x12_8' % s] = dict(kind='mm4', eight=True, sp='spmv_%s_4x12_8' % s)
    K['mmult_%s' % s] = dict(kind='mm', eight=False, sp='spmv_%s_4x12' % s)
    K['mmult_%s_8' % s] = dict(kind='mm', eight=True, sp='spmv_%s_4x12_8' % s)
    K['dot_%s' % s] = dict(kind='dot', eight=False, sp='spmv_%s_4x12' % s)
    if not v512:
        K['spmv_avx_4x12_a'] = dict(kind='spmv', eight=False, aligned=True)
        K['mmult_avx_4x12_a'] = dict(kind='mm4', eight=False, aligned=True, sp='spmv_avx_4x12_a')
        K['mmult_avx_a'] = dict(kind='mm', eight=False, aligned=True, sp='spmv_avx_4x12_a')
        K['dot_avx_a'] = dict(kind='dot', eight=False, aligned=True, sp='spmv_avx_4x12_a')
    return K
NB = {'spmv': 12, 'mm4': 48, 'mm': 144, 'dot': 12}

def fsym(ctx, cfg, name):
    c = [m for m in kern.census(ctx, cfg) if m['cls'] == 'Goldilocks' and m['name'] == name]
    if len(c) != 1: raise Unsupported('%s: %d candidates' % (name, len(c)))
    return '@' + c[0]['mangled']

def mk_inputs(k, n, limb=True):
    mkw = core.limb64 if limb else core.bv64
    A = [[mkw('a%d_%d' % (j, i)) for i in range(n)] for j in range(3)]
    nb = NB[k['kind']]
    B = [z3.ZeroExt(56, z3.BitVec('m%d' % t, 8)) if k['eight'] else mkw('m%d' % t) for t in range(nb)]
    return A, B

def state_of(A, n, s):
    """the 12 state words of state s (AVX512: s in 0,1; AVX2: s = 0)"""
    return [A[j][4 * s + i] for j in range(3) for i in range(4)]

def spec_terms(k, A, B, n):
    """list of (label, out_index_fn, [(state term, coefficient term)]) : expected sum-of-products per output word"""
    S = n // 4; out = []
    if k['kind'] == 'spmv':
        for i in range(n): out.append(('c[%d]' % i, ('vec', 0, i), [(A[j][i], B[4 * j + (i % 4)]) for j in range(3)]))
    elif k['kind'] == 'dot':
        for s in range(S): out.append(('dot[%d]' % s, ('dot', s), [(A[j][4 * s + i], B[4 * j + i]) for j in range(3) for i in range(4)]))
    elif k['kind'] == 'mm4':
        for s in range(S):
            st = state_of(A, n, s)
            for r in range(4): out.append(('b[%d]s%d' % (r, s), ('vec', 0, 4 * s + r), [(st[m], B[12 * r + m]) for m in range(12)]))
    else:
        for s in range(S):
            st = state_of(A, n, s)
            for r in range(12): out.append(('a%d[%d]s%d' % (r // 4, r % 4, s), ('vec', r // 4, 4 * s + (r % 4)), [(st[m], B[12 * r + m]) for m in range(12)]))
    return out

ALIAS = [None]     # in-place variant in progress: index j of the state register that is also the result register (spmv / 4x12 kernels)
def run(ctx, cfg, n, name, k, A, B, hooks=None, concrete=False):
    """execute the kernel; returns paths [(pc,status,(ret, outs))] where outs = dict(vec=[lists], dot=[...])"""
    fn = fsym(ctx, cfg, name)
    def mk(w):
        ao = [core.obj_words('a%d' % j, list(A[j]), 8 * n) for j in range(3)]
        bo = core.obj_words('M', list(B), 64 if k.get('aligned') else 8)   # unaligned variants get an 8-byte aligned object: any stricter alignment requirement is a violation
        if k['kind'] in ('spmv', 'mm4'):
            co = ao[ALIAS[0]] if ALIAS[0] is not None else Obj(8 * n, 'c', 8 * n); args = [Ptr(co, 0)] + [Ptr(o, 0) for o in ao] + [Ptr(bo, 0)]
            return args, (lambda ret: dict(vec=[core.words(co)]))
        if k['kind'] == 'mm':
            args = [Ptr(o, 0) for o in ao] + [Ptr(bo, 0)]
            return args, (lambda ret: dict(vec=[core.words(o) for o in ao]))
        if n == 8:
            co = Obj(16, 'c', 8); args = [Ptr(co, 0)] + [Ptr(o, 0) for o in ao] + [Ptr(bo, 0)]
            return args, (lambda ret: dict(dot=core.words(co)))
        args = [Ptr(o, 0) for o in ao] + [Ptr(bo, 0)]
        return args, (lambda ret: dict(dot=[ret]))
    return kern.run_kernel(ctx, cfg, lanes.MODS[cfg], fn, mk, hooks=hooks)

def out_term(outs, loc):
    if loc[0] == 'vec': return outs['vec'][loc[1]][loc[2]]
    return outs['dot'][loc[1]]

def spmv_contract_hook(bc, w, fn, name, k, n):
    """contract of an spmv kernel (proved by its own obligation): c[i] ≡ Σ_j a_j[i]·b[4j + i%4]; the _8 variant requires b < 2^8"""
    def h(it, args):
        bc.n += 1; kk = bc.n
        c, a0, a1, a2, b = args
        A = [[tobv(x, 64) for x in w.load_bytes(p, 8 * n)] for p in (a0, a1, a2)]; Bv = [tobv(x, 64) for x in w.load_bytes(b, 96)]
        if k['eight']:
            for t, x in enumerate(Bv): bc.pending.append(('%s#%d: coefficient %d < 2^8' % (name, kk, t), len(bc.assume), (lambda x: lambda tr: tr.val(x) < 256)(x)))
        ov = [z3.BitVec('s%d_%s_%d' % (kk, name, i), 64) for i in range(n)]; w.store_bytes(c, 8 * n, list(ov))
        for i in range(n):
            bc.assume.append((lambda i: lambda tr: cong(tr.val(ov[i]), sum(tr.prod(A[j][i], Bv[4 * j + (i % 4)])[0] for j in range(3))))(i))
        bc.used.append(name)
    w.hooks[fn] = h

def scalar_add_hook(bc, w, ctx, cfg):
    """Goldilocks::add(Element&, const Element&, const Element&) (proved in C01): result ≡ a + b"""
    fn = kern.sym(ctx, cfg, 'Goldilocks', 'add', 'void (Goldilocks::Element &, const Goldilocks::Element &, const Goldilocks::Element &)')
    def h(it, args):
        r, a, b = args; x = tobv(w.load(a, I(64)), 64); y = tobv(w.load(b, I(64)), 64)
        bc.n += 1; o = z3.BitVec('add%d' % bc.n, 64); w.store(r, I(64), o)
        bc.assume.append(lambda tr: cong(tr.val(o), tr.val(x) + tr.val(y))); bc.used.append('Goldilocks::add')
    w.hooks[fn] = h

def prove_with(ctx, paths, bc, goalf, pre, timeout):
    """discharge pending callee preconditions (each from the assumptions that precede it), then the goal"""
    vq = smt.prove(lambda tr: z3.BoolVal(False), assumptions=list(pre) + bc.assume, timeout=30)
    if vq.status == 'unsat': return ('unknown', 'vacuous: the contract assumptions collected on this run are unsatisfiable')
    for lab, na, f in bc.pending:
        r = smt.prove(f, assumptions=list(pre) + bc.assume[:na], timeout=min(timeout, 30))
        if r.status != 'unsat': return ('pre', lab, r)
    return kern.prove_paths(ctx, paths, goalf, pre=list(pre) + bc.assume, timeout=timeout)

def ob_kernel(ctx, cfg, n, name, k, alias=None):
    ALIAS[0] = alias
    T = lanes.table(n == 8); sfx = '_avx512' if n == 8 else '_avx'
    tmo = 300 if ctx.thorough else 90
    A, B = mk_inputs(k, n); spec = spec_terms(k, A, B, n)
    pre = []
    def goalf(tr, ret, outs): return [(lab, cong(tr.val(out_term(outs, loc)), sum(tr.prod(x, y)[0] for x, y in terms))) for lab, loc, terms in spec]
    bc = BC()
    def hooks(w):
        # every lane kernel the matrix kernel may be built from is summarised by its contract (all are proved in this run, see obligations());
        # kernels above the spmv level may also go through the spmv kernels' contracts
        for kn in CONTRACT_KERNELS(n):
            bc.lane_hook(w, lanes.find(ctx, cfg, kn, T[kn], n), kn, T[kn], n)
        if k['kind'] != 'spmv':
            for spn, sk in kernels(n == 8).items():
                if sk['kind'] == 'spmv': spmv_contract_hook(bc, w, fsym(ctx, cfg, spn), spn, sk, n)
            scalar_add_hook(bc, w, ctx, cfg)
    paths = run(ctx, cfg, n, name, k, A, B, hooks=hooks)
    for pc, st, res in paths:
        if st != 'ok': return viol('%s/%s' % (name, getattr(res, 'kind', 'event')), 'Goldilocks::%s: path ends in %s: %s' % (name, st, res), replay=dict(kernel=name, event=str(res)))
    r = prove_with(ctx, paths, bc, goalf, pre, tmo)
    mode = 'compositional over ' + ','.join(sorted(set(bc.used)))
    if r[0] == 'sat':
        # counterexample at the contract level (callee outputs are only known up to congruence): keep it only if it reproduces
        m = r[1]
        Av = [[core.limbval(m, 'a%d_%d' % (j, i)) for i in range(n)] for j in range(3)]; Bv = [core.limbval(m, 'm%d' % t) for t in range(NB[k['kind']])]
        res = confirm(ctx, cfg, n, name, k, Av, Bv, mode)
        if res['status'] == 'violation': return res
        r = ('pre', 'a representation-dependent step follows a contract-level value (contract-level counterexample does not reproduce)', None)
    if r[0] == 'pre':
        # a callee's documented operand assumption does not follow from the contracts of the values passed: decide bit-precisely, end to end
        lab = r[1]
        # (a) specialised bit-precise runs: coefficient array fixed to simple concrete patterns (every product is then linear in the state),
        #     state fully symbolic: cheap to decide and enough to expose a wrong representation assumption between the field kernels
        pats = [('all coefficients 1', lambda t: 1), ('coefficients 1,0 alternating by row', lambda t: 1 if (t // 12 + t) % 2 == 0 else 0)]
        if k['eight']: pats.append(('all coefficients 255', lambda t: 255))
        else: pats.append(('all coefficients p-1', lambda t: P - 1))
        for pname, pf in pats:
            A3, _ = mk_inputs(k, n, limb=False); B3 = [pf(t) for t in range(NB[k['kind']])]; spec3 = spec_terms(k, A3, B3, n)
            paths3 = run(ctx, cfg, n, name, k, A3, B3, hooks=None)
            def goal3(tr, ret, outs): return [(l, cong(tr.val(tobv(out_term(outs, loc), 64)), sum(tr.val(x) * y for x, y in terms))) for l, loc, terms in spec3]
            r3 = kern.prove_paths(ctx, paths3, goal3, timeout=min(tmo, 60))
            if r3[0] == 'sat':
                Av = [[r3[1].get('a%d_%d' % (j, i), 0) for i in range(n)] for j in range(3)]
                res = confirm(ctx, cfg, n, name, k, Av, B3, 'bit-precise with %s (callee assumption "%s" not implied by contracts)' % (pname, lab))
                if res['status'] == 'violation': return res
        A2, B2 = mk_inputs(k, n); spec2 = spec_terms(k, A2, B2, n)
        paths2 = run(ctx, cfg, n, name, k, A2, B2, hooks=None)
        def goal2(tr, ret, outs): return [(l, cong(tr.val(out_term(outs, loc)), sum(tr.prod(x, y)[0] for x, y in terms))) for l, loc, terms in spec2]
        r = kern.prove_paths(ctx, paths2, goal2, timeout=tmo)
        mode = 'bit-precise end-to-end (callee assumption "%s" not implied by contracts)' % lab
    if r[0] == 'unsat': return ok('%s; %s' % (mode, r[1]), sample=dict(kernel=name, lanes=n, mode=mode, outputs=len(spec)))
    if r[0] == 'sat':
        m = r[1]
        Av = [[core.limbval(m, 'a%d_%d' % (j, i)) for i in range(n)] for j in range(3)]; Bv = [core.limbval(m, 'm%d' % t) for t in range(NB[k['kind']])]
        return confirm(ctx, cfg, n, name, k, Av, Bv, mode)
    if r[0] == 'event': return viol('%s/%s' % (name, getattr(r[2], 'kind', 'event')), 'path ends in %s: %s' % (r[1], r[2]), replay=dict(kernel=name, event=str(r[2])))
    return inconc('%s: %s' % (mode, r[1]))

def native_run(ctx, cfg, n, name, k, Av, Bv):
    f = core.nfn(ctx.bdir, cfg, fsym(ctx, cfg, name), ctypes.c_uint64 if (k['kind'] == 'dot' and n == 4) else None)
    if f is None: return None
    ab = [kern.u64buf(Av[j]) for j in range(3)]; bb = kern.u64buf(Bv)
    if k['kind'] in ('spmv', 'mm4'):
        c = ab[ALIAS[0]] if ALIAS[0] is not None else kern.u64buf([0] * n); f(ctypes.byref(c), *[ctypes.byref(x) for x in ab], ctypes.byref(bb)); return dict(vec=[list(c)])
    if k['kind'] == 'mm':
        f(*[ctypes.byref(x) for x in ab], ctypes.byref(bb)); return dict(vec=[list(x) for x in ab])
    if n == 8:
        c = kern.u64buf([0, 0]); f(ctypes.byref(c), *[ctypes.byref(x) for x in ab], ctypes.byref(bb)); return dict(dot=list(c))
    return dict(dot=[f(*[ctypes.byref(x) for x in ab], ctypes.byref(bb))])

def interp_run(ctx, cfg, n, name, k, Av, Bv):
    paths = run(ctx, cfg, n, name, k, Av, Bv)
    pc, st, res = paths[0]
    if st != 'ok': raise Unsupported('concrete run ended in %s' % (res,))
    return res[1]

def confirm(ctx, cfg, n, name, k, Av, Bv, mode):
    outs = native_run(ctx, cfg, n, name, k, Av, Bv); how = 'native'
    if outs is None: outs = interp_run(ctx, cfg, n, name, k, Av, Bv); how = 'interpreter (no native AVX512)'
    spec = spec_terms(k, Av, Bv, n)
    for lab, loc, terms in spec:
        got = out_term(outs, loc); exp = sum(x * y for x, y in terms) % P
        if got % P != exp:
            nz = {'a%d[%d]' % (j, i): hex(Av[j][i]) for j in range(3) for i in range(n) if Av[j][i]}; nzb = {'m[%d]' % t: hex(v) for t, v in enumerate(Bv) if v}
            return viol(name, 'Goldilocks::%s%s %s = %#x (= %d mod p), expected %d mod p; inputs %s coefficients %s (%s)' % (name, (' [result register is state register a%d]' % ALIAS[0]) if ALIAS[0] is not None else '', lab, got, got % P, exp, nz, nzb, how),
                        replay=dict(kernel=name, cfg=cfg, n=n, A=Av, B=Bv, how=how, alias=ALIAS[0]))
    return inconc('ENCODING-MISMATCH: model for %s does not reproduce (%s)' % (name, how))

def obligations(ctx, cfg, n):
    obs = [Ob(name, ob_kernel, (cfg, n, name, k), weight=5) for name, k in kernels(n == 8).items()]
    # in-place uses the signatures allow: the result register of a sparse / 4x12 product is one of the three state registers
    for name, k in kernels(n == 8).items():
        if k['kind'] in ('spmv', 'mm4'):
            for j in range(3): obs.append(Ob('%s/c=a%d' % (name, j), ob_kernel, (cfg, n, name, k, j), weight=5))
    # contracts relied on (lane kernels of C02/C11 and scalar add of C01) are re-proved in this run
    T = lanes.table(n == 8); sfx = '_avx512' if n == 8 else '_avx'
    for kn in CONTRACT_KERNELS(n):
        obs.append(Ob('contract/' + kn, lanes.ob_kernel, (cfg, lanes.MODS[cfg], kn, T[kn], n)))
    from . import C01
    fn = kern.sym(ctx, cfg, 'Goldilocks', 'add', 'void (Goldilocks::Element &, const Goldilocks::Element &, const Goldilocks::Element &)')
    if cfg == 'avx2': obs.append(Ob('contract/Goldilocks::add', C01.ob_op, ('add', 'ref', fn, 'distinct')))
    return obs

def validate(ctx, cfg, n):
    rng = ctx.rng('mat' + cfg); cnt = 0; bad = []
    for name, k in kernels(n == 8).items():
        for rep in range(2):
            Av = [[rng.choice(lanes.VEC) if rng.random() < 0.5 else rng.getrandbits(64) for _ in range(n)] for _ in range(3)]
            Bv = [rng.getrandbits(8) if k['eight'] else (rng.choice(lanes.VEC) if rng.random() < 0.3 else rng.getrandbits(64)) for _ in range(NB[k['kind']])]
            nat = native_run(ctx, cfg, n, name, k, Av, Bv); itp = interp_run(ctx, cfg, n, name, k, Av, Bv); cnt += 1
            if nat is not None and nat != itp: bad.append('%s: native %s interp %s' % (name, nat, itp))
    return {'vectors': cnt, 'mismatches': bad}

def replay(ctx, d):
    if 'event' in d: return True, d['event']
    k = kernels(d['n'] == 8)[d['kernel']]; ALIAS[0] = d.get('alias')
    r = confirm(ctx, d['cfg'], d['n'], d['kernel'], k, d['A'], d['B'], 'replay')
    return r['status'] == 'violation', r['detail']
