# C10 — base-field inverse, division and power are exact and total on non-zero operands.
#  inv: inductive step on the real Euclid loop body from a havocked loop head (no iteration bound), entry and exit obligations, zero refusal.
#  exp: inductive step on the real square-and-multiply loop with POW an uninterpreted function carrying the defining recursion.
import z3, ctypes
from .. import core, smt, kern, bv2int
from ..interp import *
from ..runner import Ob, ok, viol, inconc
from ..kern import P, sym

CFG = 'avx2'; MODS = ['cen_avx2', 'gbf_avx2']
E = 'Goldilocks::Element'
INV = '@_ZN10Goldilocks3invERNS_7ElementERKS0_'; EXP = '@_ZN10Goldilocks3expERNS_7ElementES0_m'
META = dict(
    functions=['Goldilocks::inv(Element&, const Element&) (Euclid loop)', 'Goldilocks::inv(const Element&)', 'Goldilocks::div (both forms)', 'Goldilocks::exp (both forms)', 'isZero/toU64/fromU64 (interpreted)'],
    bounds={'quick': 'no iteration bound: one inductive step of each loop body from an arbitrary state satisfying the invariant, plus entry and exit obligations; all 64-bit operands and exponents', 'thorough': 'same; cvc5 cross-check'},
    outside=[], stubs=['std::cerr insertion: no-op', 'exit: ends the path (recorded)'],
    assumptions=['Goldilocks::mul/sub contracts (re-proved bit-precisely in this run)'],
    trusted_base=['Euclid\'s algorithm on (p, a) ends with r = gcd(p, a); p is prime (Pratt certificate with generator 7 checked by ground arithmetic in this run), hence r = 1 for a ≢ 0',
                  'the recursion POW(b,0)=1, POW(b,e)=b^(e&1)·POW(b², e>>1) defines b^e', 'a strictly decreasing non-negative variant implies termination'])

def contracts(w, asm, tag=''):
    """B-mode contracts of Goldilocks::mul/sub/add(Element&, const Element&, const Element&): fresh output ≡ a op b"""
    cnt = [0]
    def mk(op):
        def h(it, a):
            r, x, y = a; X = tobv(w.load(x, I(64)), 64); Y = tobv(w.load(y, I(64)), 64)
            cnt[0] += 1; o = z3.BitVec('%s%s%d' % (tag, op, cnt[0]), 64); w.store(r, I(64), o)
            if op == 'mul': asm.append(lambda tr: (tr.val(o) - tr.prod(X, Y)[0]) % P == 0)
            elif op == 'sub': asm.append(lambda tr: (tr.val(o) - (tr.val(X) - tr.val(Y))) % P == 0)
            else: asm.append(lambda tr: (tr.val(o) - (tr.val(X) + tr.val(Y))) % P == 0)
            return None
        return h
    for op in ('mul', 'sub', 'add'):
        w.hooks[sym_(op)] = mk(op)
def sym_(op): return '@_ZN10Goldilocks3%sERNS_7ElementERKS0_S3_' % op

def pratt():
    """p - 1 = 2^32 · 3 · 5 · 17 · 257 · 65537; 7 is a primitive root: 7^(p-1) = 1 and 7^((p-1)/q) != 1 for each prime factor q"""
    fac = [2, 3, 5, 17, 257, 65537]; n = P - 1
    for q in fac:
        while n % q == 0: n //= q
    if n != 1: return False
    for q in fac[1:]:
        if any(q % d == 0 for d in range(2, int(q ** 0.5) + 1)): return False
    return pow(7, P - 1, P) == 1 and all(pow(7, (P - 1) // q, P) != 1 for q in fac)

# ---------------------------------------------------------------- inv
def inv_run(ctx, mode):
    """mode 'entry': run from function entry until the loop header is reached (returns entry phi values) or the function ends
       mode 'step' : havoc the loop header, run one body iteration; returns ('back', vals) or ('exit', result)"""
    w = core.world(ctx.bdir, MODS); w.hooks = dict(w.base_hooks)
    f = w.funcs[INV]
    pos = {lab: i for i, lab in enumerate(f.order)}
    header = [lab for lab in f.order if sum(1 for ins in f.blocks[lab] if ins.op == 'phi') == 4
              and any(pos.get(l, -1) >= pos[lab] for ins in f.blocks[lab] if ins.op == 'phi' for v, l in ins.inc)]
    if len(header) != 1:
        if mode != 'entry': raise Unsupported('Euclid loop header not identified (%d candidates)' % len(header))
        header = [lab for lab in f.order if any(ins.op == 'phi' for ins in f.blocks[lab]) and any(pos.get(l, -1) >= pos[lab] for ins in f.blocks[lab] if ins.op == 'phi' for v, l in ins.inc)][:1]
        if not header: raise Unsupported('no loop header in Goldilocks::inv')
    header = header[0]; phis = [ins.res for ins in f.blocks[header] if ins.op == 'phi']
    out = []
    a = core.bv64('a')
    H = {n: core.bv64(n) for n in ('t', 'r', 'newt', 'newr')}
    def go(it):
        asm = []; contracts(w, asm)
        state = {'n': 0}
        def lc(it_, prev, newv, env):
            state['n'] += 1
            if mode == 'entry': raise LoopCut(dict(newv))
            if state['n'] == 1:
                # identify the roles of the four phis by their entry values: t=0, r=p, newt=1, newr=toU64(a)
                roles = {}
                for nm, v in newv.items():
                    if is_c(v) and v == 0: roles[nm] = 't'
                    elif is_c(v) and v == P: roles[nm] = 'r'
                    elif is_c(v) and v == 1: roles[nm] = 'newt'
                    else: roles[nm] = 'newr'
                if sorted(roles.values()) != ['newr', 'newt', 'r', 't']: raise Unsupported('loop state roles not identified: %s' % roles)
                state['roles'] = roles
                return {nm: H[roles[nm]] for nm in newv}
            raise LoopCut({state['roles'][nm]: v for nm, v in newv.items()})
        it.loopcut = {(INV, header): lc}
        res = Obj(8, 'result', 8); oa = core.obj_words('a', [a], 8)
        try:
            it.call(INV, [Ptr(res, 0), Ptr(oa, 0)])
            return ('exit', res.cells.get(0), asm, state.get('roles'))
        except LoopCut as e: return ('back', e.vals, asm, state.get('roles'))
    paths = explore(w, go)
    return a, H, paths

def ob_inv_refusal(ctx):
    """zero operand (both representations) -> exit(-1) after the diagnostic, never a value; non-zero operand -> never exit"""
    a, H, paths = inv_run(ctx, 'entry')
    nexit = 0
    for p in paths:
        if p.status == 'terminated' and p.result.kind == 'exit':
            nexit += 1
            r = smt.prove(lambda tr: tr.val(a) % P == 0, assumptions=list(p.pc), timeout=30)
            if r.status == 'sat':
                x = r.model.get('a', 0); nr = native_inv_call(ctx, x)
                if nr[0] != 'ok': return viol('inv/refusal', 'inv does not return for the non-zero operand a=%#x (native run: %s %s)' % (x, nr[0], nr[1]), replay=dict(a=x, kind='exit'))
                return inconc('ENCODING-MISMATCH: exit path for a=%#x does not reproduce natively' % x)
            if r.status != 'unsat': return inconc(r.info)
        elif p.status == 'ok':
            r = smt.prove(lambda tr: tr.val(a) % P != 0, assumptions=list(p.pc), timeout=30)
            if r.status == 'sat':
                x = r.model.get('a', 0); nr = native_inv_call(ctx, x)
                if nr[0] == 'ok': return viol('inv/returns-on-zero', 'inv returns a value (%#x) for the zero operand a=%#x' % (nr[1], x), replay=dict(a=x, kind='returns'))
                return inconc('a zero operand reaches the loop in the model but the native call does not return (%s): refusal happens later than the checker expects' % (nr[0],))
            if r.status != 'unsat': return inconc(r.info)
        else: return viol('inv/event', 'inv: %s' % p.result, replay=dict(event=str(p.result)))
    if nexit == 0:
        for x in (0, P):
            nr = native_inv_call(ctx, x)
            if nr[0] == 'ok': return viol('inv/returns-on-zero', 'inv returns a value (%#x) for the zero operand a=%#x' % (nr[1], x), replay=dict(a=x, kind='returns'))
        return inconc('no exit path found before the loop although the native calls inv(0), inv(p) do not return')
    return ok('%d paths: exit(-1) exactly for a ≡ 0 (a = 0 and a = p)' % len(paths), sample=dict(part='refusal', paths=len(paths)))

def native_inv_call(ctx, x):
    f = core.nfn(ctx.bdir, CFG, INV)
    def body():
        a = ctypes.c_uint64(x); r = ctypes.c_uint64(0); f(ctypes.byref(r), ctypes.byref(a)); return r.value
    return core.forked(body, timeout=20)

def ob_inv_entry(ctx):
    try: r = ob_inv_entry_special(ctx)
    except (Unsupported, AttributeError, TypeError, KeyError, z3.Z3Exception) as e: r = inconc('%s: %s' % (type(e).__name__, e), structural=True)
    if r.get('structural'):
        # the textbook entry state is not what the loop starts from: the structure-independent check (which contains its own entry obligation)
        # decides; it is run here as well as under inv/step because the specialised step proof may still succeed on its own
        g = inv_generic(ctx); g['detail'] = '[loop entry not the textbook one (%s); structure-independent check] %s' % (r['detail'][:120], g.get('detail', '')); return g
    return r
def ob_inv_step(ctx):
    try: r = ob_inv_step_special(ctx)
    except (Unsupported, AttributeError, TypeError, KeyError, z3.Z3Exception) as e: r = inconc('%s: %s' % (type(e).__name__, e), structural=True)
    if r.get('structural'):
        g = inv_generic(ctx); g['detail'] = '[loop shape not the textbook one (%s); structure-independent check] %s' % (r['detail'][:120], g.get('detail', '')); return g
    return r

def ob_inv_entry_special(ctx):
    """on the non-refusing path the loop is entered with (t, r, newt, newr) = (0, p, 1, can(a)), which satisfies the invariant"""
    try: a, H, paths = inv_run(ctx, 'entry')
    except Unsupported as e: return inconc(str(e), structural=True)
    seen = 0
    for p in paths:
        if p.status != 'ok': continue
        kind, vals, asm, _ = p.result
        if kind == 'exit':
            # loop skipped: only allowed if infeasible (can(a) == 0 contradicts the refusal)
            r = smt.prove(lambda tr: z3.BoolVal(False), assumptions=list(p.pc), timeout=30)
            if r.status == 'sat': return inconc('a path returns without entering the loop (a=%#x)' % r.model.get('a', 0), structural=True)
            continue
        seen += 1; vs = list(vals.values())
        def goal(tr):
            A = tr.val(a); cana = z3.If(A >= P, A - P, A); V = [tr.val(tobv(v, 64)) for v in vs]
            return z3.And(z3.Or([v == 0 for v in V]), z3.Or([v == P for v in V]), z3.Or([v == 1 for v in V]), z3.Or([v == cana for v in V]), cana != 0, cana < P)
        r = smt.prove(goal, assumptions=list(p.pc), timeout=30)
        if r.status != 'unsat': return inconc('entry state: %s %s' % (r.status, r.info)) if r.status != 'sat' else inconc('loop entry state is not (0,p,1,can(a)) for a=%#x' % r.model.get('a', 0), structural=True)
    if not seen: return inconc('loop header never reached', structural=True)
    # invariant at entry (ground reasoning with symbolic A): 0·A - p = (-1)·p ; 1·A - can(A) ∈ {0, p}
    A = z3.Int('A'); cana = z3.If(A >= P, A - P, A)
    s = z3.Solver(); s.add(A >= 0, A < 2**64, cana != 0); s.add(z3.Not(z3.And(0 * A - P == (-1) * P, z3.Or(1 * A - cana == 0, 1 * A - cana == P), 0 < cana, cana < P)))
    if smt.check(s) != z3.unsat: return inconc('entry invariant')
    return ok('entry state (0, p, 1, can(a)) establishes the invariant with witnesses m1 = -1, m2 in {0,1}', sample=dict(part='entry'))

def ob_inv_step_special(ctx):
    a, H, paths = inv_run(ctx, 'step')
    pre_bv = [z3.ULT(bvv(0, 64), H['newr']), z3.ULT(H['newr'], H['r']), z3.ULE(H['r'], bvv(P, 64)), z3.ULT(H['t'], bvv(P, 64)), z3.ULT(H['newt'], bvv(P, 64))]
    nback = nexit = 0; nq = 0
    for p in paths:
        if p.status == 'terminated' and p.result.kind == 'exit': continue      # the refusal path never reaches the loop (see inv/refusal)
        if p.status != 'ok': return viol('inv/step-event', 'loop body: %s' % p.result, replay=dict(event=str(p.result)))
        kind, vals, asm, roles = p.result
        if roles is None: continue
        base = pre_bv + list(p.pc) + asm
        # is this path feasible at all under the invariant's range part?
        feas = smt.prove(lambda tr: z3.BoolVal(False), assumptions=base, timeout=30)
        if feas.status == 'unsat': continue
        if kind == 'back':
            nback += 1; t2, r2, nt2, nr2 = (tobv(vals[k], 64) for k in ('t', 'r', 'newt', 'newr'))
        else:
            nexit += 1
            # exit edge: the returned value is the new t, and the new newr is 0.  Recover the final state from the path: returned word = result
            t2 = tobv(vals, 64); r2 = H['newr']; nt2 = None; nr2 = None
        T_, R_, NT, NR = (H[k] for k in ('t', 'r', 'newt', 'newr'))
        goals = []
        goals.append(('t\' = newt', lambda tr: tr.val(t2) == tr.val(NT)))
        if kind == 'back':
            goals.append(('r\' = newr', lambda tr: tr.val(r2) == tr.val(NR)))
            goals.append(('newr\' = r mod newr (Euclid step; variant decreases)', lambda tr: tr.val(nr2) == tr.val(R_) % tr.val(NR)))
            goals.append(('newr\' != 0 on the back edge', lambda tr: tr.val(nr2) != 0))
            goals.append(('newt\' < p', lambda tr: tr.val(nt2) < P))
            goals.append(('newt\' ≡ t - (r div newr)·newt', lambda tr: (tr.val(nt2) - (tr.val(T_) - tr.prod(z3.UDiv(R_, NR), NT)[0])) % P == 0))
        for lab, g in goals:
            r = smt.prove(g, assumptions=base, timeout=60); nq += 1
            if r.status == 'sat': return confirm_native(ctx, 'inv', 'Euclid loop body violates "%s" from state %s' % (lab, {k: hex(v) for k, v in r.model.items()}), r.model)
            if r.status != 'unsat': return inconc('%s: %s' % (lab, r.info))
        if kind == 'exit':
            # exit happens exactly when r mod newr == 0
            r = smt.prove(lambda tr: tr.val(R_) % tr.val(NR) == 0, assumptions=base, timeout=60); nq += 1
            if r.status != 'unsat': return inconc('exit condition: %s' % r.status)
    if not (nback and nexit): return inconc('loop body paths: %d back, %d exit' % (nback, nexit))
    # invariant preservation from the code facts (pure integers, explicit witnesses)
    t, nt, r, nr, A, m1, m2, K, nt2 = z3.Ints('t newt r newr A m1 m2 K newt2')
    q = r / nr; nr2 = r % nr
    hyp = [0 < nr, nr < r, r <= P, 0 <= t, t < P, 0 <= nt, nt < P, t * A - r == m1 * P, nt * A - nr == m2 * P, nt2 == t - q * nt + K * P, 0 <= nt2, nt2 < P]
    for lab, g in (('range/variant', z3.And(0 <= nr2, nr2 < nr, nr <= P)), ('t\'·A - r\' = m2·p', nt * A - nr == m2 * P), ('newt\'·A - newr\' = (m1 - q·m2 + K·A)·p', nt2 * A - nr2 == (m1 - q * m2 + K * A) * P)):
        s = z3.Solver(); s.set('timeout', 60000); s.add(hyp); s.add(z3.Not(g)); rr = smt.check(s); nq += 1
        if rr != z3.unsat: return inconc('invariant preservation "%s": %s' % (lab, rr))
    if not pratt(): return inconc('Pratt certificate for p failed')
    return ok('%d back-edge and %d exit path(s); %d queries: the body performs one Euclid step (r,newr) -> (newr, r mod newr) and preserves t·a ≡ r, newt·a ≡ newr (mod p) with explicit witnesses; exit returns t with t·a ≡ gcd' % (nback, nexit, nq),
              sample=dict(part='step', back=nback, exit=nexit, invariant='0<newr<r<=p, t,newt<p, t·a-r=m1·p, newt·a-newr=m2·p'))

# ---------------------------------------------------------------- inv, structure-independent fallback
#  Used when the loop of Goldilocks::inv does not have the shape the specialised obligations above expect (e.g. after an unrolling or a rewrite
#  on plain integers).  (1) concrete runs through the interpreter record the values of the loop-header phis; from them candidate invariants are
#  read off: pairs (x, y) with x·a ≡ y (mod p) and range facts; (2) the loop header is havocked and ONE iteration of the real body is executed
#  symbolically; every back-edge state and every exit must be an element of the Euclid closure of the header state
#       (A, B) -> (B, A - (Y_A div Y_B)·B)          on pairs A = (x, y) with x·a ≡ y,
#  which preserves both x·a ≡ y (pure-integer lemma, discharged below) and gcd(Y_A, Y_B) (trusted number theory); an exit must return X_A of a
#  closure state whose other remainder Y_B is 0, hence Y_A = gcd(p, can(a)) = 1 and X_A·a ≡ 1.  (3) entry establishes the invariant.
def inv_generic(ctx):
    w = core.world(ctx.bdir, MODS); w.hooks = dict(w.base_hooks)
    f = w.funcs[INV]
    pos = {lab: i for i, lab in enumerate(f.order)}
    heads = [lab for lab in f.order if sum(1 for ins in f.blocks[lab] if ins.op == 'phi') >= 2
             and any(pos.get(l, -1) >= pos[lab] for ins in f.blocks[lab] if ins.op == 'phi' for v, l in ins.inc)]      # a phi block with a back edge
    if not heads: return inconc('generic inv check: no loop header with phis in Goldilocks::inv')
    # (1) sampling
    rng = ctx.rng('C10generic'); xs = [1, 2, 3, 5, 7, 10, 2**32, 2**32 + 1, P - 1, P - 2, P + 1, P + 7, 2**64 - 1, 0x123456789abcdef] + [rng.getrandbits(64) for _ in range(30)]
    samples = {h: [] for h in heads}
    for x in xs:
        if x % P == 0: continue
        w.reset(); w.hooks = dict(w.base_hooks); it = Interp(w); cnt = {h: 0 for h in heads}
        def mk(h):
            def lc(it_, prev, newv, env):
                cnt[h] += 1
                if cnt[h] <= 8: samples[h].append((x, {k: v for k, v in newv.items() if is_c(v)}))
                return newv
            return lc
        it.loopcut = {(INV, h): mk(h) for h in heads}
        ro = Obj(8, 'r', 8)
        try: it.call(INV, [Ptr(ro, 0), Ptr(core.obj_words('a', [x], 8), 0)])
        except (Violation, Terminated, Unsupported) as e: return inconc('generic inv check: concrete run inv(%#x) ended with %s' % (x, e))
        if not is_c(ro.cells.get(0)) or (ro.cells[0] * x) % P != 1:
            return confirm_native(ctx, 'inv', 'concrete interpretation of inv(%#x) returns %s' % (x, ro.cells.get(0)), {'a': x})
    header = max(heads, key=lambda h: len(samples[h])); S = samples[header]
    if len(S) < 12: return inconc('generic inv check: loop header reached only %d times in the concrete runs' % len(S))
    phis = sorted(k for k in S[0][1] if all(k in v for a_, v in S))
    pairs = []
    for x_ in phis:
        for y_ in phis:
            if x_ == y_: continue
            if all((v[x_] * (a % P) - v[y_]) % P == 0 for a, v in S) and len({v[y_] for a, v in S}) > 3 and len({v[x_] for a, v in S}) > 3: pairs.append((x_, y_))
    # keep two disjoint pairs
    pairs = [pq for pq in pairs if sum(1 for o in pairs if set(o) & set(pq)) == 1]
    if len(pairs) != 2: return inconc('generic inv check: expected two (coefficient, remainder) pairs with x·a ≡ y at the loop header, found %s among phis %s' % (pairs, phis))
    (x0, y0), (x1, y1) = pairs
    rng_c = []
    for v in (x0, x1):
        if all(val[v] < P for a, val in S): rng_c.append(('%s < p' % v, v, 'ltp'))
    for v in (y0, y1):
        if all(val[v] <= P for a, val in S): rng_c.append(('%s <= p' % v, v, 'lep'))
        if all(val[v] > 0 for a, val in S): rng_c.append(('%s > 0' % v, v, 'pos'))
    if all(val[y1] < val[y0] for a, val in S): rng_c.append(('%s < %s' % (y1, y0), (y1, y0), 'lt'))
    elif all(val[y0] < val[y1] for a, val in S): rng_c.append(('%s < %s' % (y0, y1), (y0, y1), 'lt'))
    a = core.bv64('a'); H = {n: core.bv64('h_' + n.strip('%')) for n in phis}
    pw = {ins.res: w.rty(ins.ty).bits for ins in f.blocks[header] if ins.op == 'phi' and w.rty(ins.ty).kind == 'int'}
    def rng_f(c, vals):
        lab, v, kind = c
        if kind == 'ltp': return lambda tr: tr.val(tobv(vals[v], 64)) < P
        if kind == 'lep': return lambda tr: tr.val(tobv(vals[v], 64)) <= P
        if kind == 'pos': return lambda tr: tr.val(tobv(vals[v], 64)) > 0
        return lambda tr: tr.val(tobv(vals[v[0]], 64)) < tr.val(tobv(vals[v[1]], 64))
    # (2) one symbolic iteration from the havocked header
    def run(mode):
        def go(it):
            asm = []; contracts(w, asm); st = {'n': 0}
            def lc(it_, prev, newv, env):
                st['n'] += 1
                if mode == 'entry': raise LoopCut(dict(newv))
                if st['n'] == 1: return {k: (H[k] if (k in H and pw.get(k, 64) == 64) else z3.BitVec('h_other_' + k.strip('%'), pw.get(k, 64))) for k in newv}
                raise LoopCut(dict(newv))
            it.loopcut = {(INV, header): lc}
            res = Obj(8, 'result', 8); oa = core.obj_words('a', [a], 8)
            try:
                it.call(INV, [Ptr(res, 0), Ptr(oa, 0)]); return ('exit', res.cells.get(0), asm, st['n'])
            except LoopCut as e: return ('back', e.vals, asm, st['n'])
        return explore(w, go)
    class Pr:
        """a (coefficient, remainder) pair: remainder as an exact 64-bit term, coefficient as a 64-bit term (xbv) or an integer-level expression (xf)"""
        def __init__(s, xbv, ybv, xf=None, nm=''): s.xbv = xbv; s.ybv = ybv; s.xf = xf or (lambda tr, xbv=xbv: tr.val(xbv)); s.nm = nm
    def derive(A, B):
        """Euclid step on pairs: A - q·B with q = Y_A div Y_B (requires Y_B != 0, part of every query that uses it)"""
        Q = z3.UDiv(A.ybv, B.ybv)
        xf = lambda tr: A.xf(tr) - (tr.prod(Q, B.xbv)[0] if B.xbv is not None else tr.val(Q) * B.xf(tr))
        return Pr(None, A.ybv - Q * B.ybv, xf, '(%s - q·%s)' % (A.nm, B.nm))
    P0 = Pr(H[x0], H[y0], nm='P0'); P1 = Pr(H[x1], H[y1], nm='P1')
    nq = 0; nback = nexit = 0
    tm = 180 if ctx.thorough else 90
    NIA = [dict(limb_min=0, abstract=False, logic=None, share=0.5), dict(limb_min=0, abstract=False, logic='QF_NIA', share=0.5)]
    def holds(g, base):
        nonlocal nq
        nq += 1; return smt.prove(g, assumptions=base, timeout=tm, variants=NIA, bitprecise=False).status == 'unsat'
    for p_ in run('step'):
        if p_.status == 'terminated' and p_.result.kind == 'exit': continue
        if p_.status != 'ok': return confirm_native(ctx, 'inv', 'loop body: %s' % p_.result, path_model(p_.pc))
        kind, vals, asm, narr = p_.result
        if narr == 0: continue                       # paths that never reach the loop are judged by the entry obligation
        base = [rng_f(c, H) for c in rng_c] + list(p_.pc) + asm
        feas = smt.prove(lambda tr: z3.BoolVal(False), assumptions=base, timeout=20, bitprecise=False); nq += 1
        if feas.status == 'unsat': continue
        if kind == 'back':
            nback += 1
            N = [Pr(tobv(vals[x0], 64), tobv(vals[y0], 64), nm='N0'), Pr(tobv(vals[x1], 64), tobv(vals[y1], 64), nm='N1')]
            # justify the new header pairs one Euclid step at a time; justified pairs (with the code's own words as representatives) extend the chain
            state = [P0, P1]; just = {}; progress = True; steps = 0
            while progress and len(just) < 2 and steps < 4:
                progress = False
                for k, Nk in enumerate(N):
                    if k in just: continue
                    for (A, B) in ((state[0], state[1]), (state[1], state[0])):
                        if holds(lambda tr, A=A, Nk=Nk: tr.val(Nk.ybv) == tr.val(A.ybv), base) and holds(lambda tr, A=A, Nk=Nk: (tr.val(Nk.xbv) - A.xf(tr)) % P == 0, base):
                            just[k] = 'same as %s' % A.nm; Nk.nm = A.nm; state = [Nk if s_ is A else s_ for s_ in state]; progress = True; break
                        D = derive(A, B)
                        if holds(lambda tr, B=B: tr.val(B.ybv) != 0, base) and holds(lambda tr, D=D, Nk=Nk: tr.val(Nk.ybv) == tr.val(D.ybv), base) and holds(lambda tr, D=D, Nk=Nk: (tr.val(Nk.xbv) - D.xf(tr)) % P == 0, base):
                            just[k] = D.nm; Nk.nm = 'N%d' % k; state = [B, Nk]; progress = True; steps += 1; break
                    if progress: break
            if len(just) < 2 or not (set(id(s_) for s_ in state) == set(id(n_) for n_ in N)) or steps == 0:
                return confirm_native(ctx, 'inv', 'a back edge of the inversion loop does not lead to a state reachable by Euclid steps from the header state (pairs %s; justified %s)' % (pairs, just), path_model(p_.pc))
            for c in rng_c:
                r = smt.prove(rng_f(c, vals), assumptions=base, timeout=tm, bitprecise=False); nq += 1
                if r.status != 'unsat': return inconc('generic inv check: candidate invariant "%s" not shown inductive (%s)' % (c[0], r.status))
            if not holds(lambda tr: tr.val(N[0].ybv) + tr.val(N[1].ybv) < tr.val(H[y0]) + tr.val(H[y1]), base):
                return inconc('generic inv check: the sum of the remainders is not shown to decrease on a back edge')
        else:
            nexit += 1; res = tobv(vals, 64); found = None
            chains = []
            for (A, B) in ((P0, P1), (P1, P0)):
                cur = (A, B); chains.append(cur)
                for d in range(2): cur = (cur[1], derive(cur[0], cur[1])); chains.append(cur)
            for (A, B) in chains:
                for (U, V) in ((A, B), (B, A)):
                    if holds(lambda tr, U=U, V=V: z3.And(tr.val(V.ybv) == 0, (tr.val(res) - U.xf(tr)) % P == 0), base): found = (U.nm, V.nm); break
                if found: break
            if not found: return confirm_native(ctx, 'inv', 'an exit of the inversion loop does not return the coefficient paired with the last non-zero remainder of a state reachable by Euclid steps', path_model(p_.pc))
    if not (nback and nexit): return inconc('generic inv check: loop body paths: %d back, %d exit' % (nback, nexit))
    # (3) entry
    nent = 0
    for p_ in run('entry'):
        if p_.status == 'terminated' and p_.result.kind == 'exit': continue
        if p_.status != 'ok': return confirm_native(ctx, 'inv', 'before the loop: %s' % p_.result, path_model(p_.pc))
        kind, vals, asm, narr = p_.result
        base = list(p_.pc) + asm
        feas = smt.prove(lambda tr: z3.BoolVal(False), assumptions=base, timeout=20, bitprecise=False); nq += 1
        if feas.status == 'unsat': continue
        if kind == 'exit':
            res = tobv(vals, 64)
            r = smt.prove(lambda tr: (tr.prod(res, a)[0] - 1) % P == 0, assumptions=base, timeout=tm, variants=NIA, bitprecise=False); nq += 1
            if r.status == 'sat': return confirm_native(ctx, 'inv', 'inv returns without entering its loop with a value that is not the inverse', r.model)
            if r.status != 'unsat': return inconc('generic inv check: return before the loop: %s' % r.status)
            continue
        nent += 1; ex0, ey0, ex1, ey1 = (tobv(vals[k], 64) for k in (x0, y0, x1, y1))
        def gent(tr):
            A = tr.val(a); Y0 = tr.val(ey0); Y1 = tr.val(ey1)
            return z3.And((tr.prod(ex0, a)[0] - Y0) % P == 0, (tr.prod(ex1, a)[0] - Y1) % P == 0,
                          z3.Or(z3.And(Y0 == P, 0 < Y1, Y1 < P), z3.And(Y1 == P, 0 < Y0, Y0 < P)))
        r = smt.prove(gent, assumptions=base, timeout=tm, variants=NIA, bitprecise=False); nq += 1
        if r.status == 'sat': return confirm_native(ctx, 'inv', 'the loop is entered in a state that does not satisfy x·a ≡ y with remainders {p, v}, 0 < v < p', r.model)
        if r.status != 'unsat': return inconc('generic inv check: entry state: %s' % r.status)
        for c in rng_c:
            r = smt.prove(rng_f(c, vals), assumptions=base, timeout=tm, bitprecise=False); nq += 1
            if r.status != 'unsat': return inconc('generic inv check: candidate invariant "%s" does not hold at loop entry (%s)' % (c[0], r.status))
    if not nent: return inconc('generic inv check: loop header not reached from the entry')
    # pure-integer lemma behind the closure step
    xa, ya, xb, yb, A_, m1, m2, K, q = z3.Ints('xa ya xb yb A m1 m2 K q')
    sv = z3.Solver(); sv.set('timeout', 60000); sv.add(xa * A_ - ya == m1 * P, xb * A_ - yb == m2 * P); sv.add(z3.Not((xa - q * xb + K * P) * A_ - (ya - q * yb) == (m1 - q * m2 + K * A_) * P)); nq += 1
    if smt.check(sv) != z3.unsat: return inconc('generic inv check: closure lemma')
    if not pratt(): return inconc('Pratt certificate for p failed')
    return ok('structure-independent check: header %s, pairs %s with x·a ≡ y, %d range invariants (%s) read off %d concrete header states and proved inductive; %d back-edge and %d exit path(s) land in the Euclid closure; %d queries'
              % (header, pairs, len(rng_c), ', '.join(c[0] for c in rng_c), len(S), nback, nexit, nq), sample=dict(part='generic', pairs=[list(p) for p in pairs], invariants=[c[0] for c in rng_c]))

def structural(res):
    """a specialised obligation ended because the code does not have the expected shape (never a verdict about the property)"""
    return res['status'] != 'proved' and res.get('structural')

def ob_inv_wrapper(ctx):
    """inv(const Element&) and div are wrappers: interpret them over the inv contract"""
    w = core.world(ctx.bdir, MODS); w.hooks = dict(w.base_hooks); asm = []; contracts(w, asm)
    a = core.bv64('a'); b = core.bv64('b'); I_ = core.bv64('inv_b')
    def invh(it, args):
        x = tobv(w.load(args[1], I(64)), 64); w.inv_of = x; w.store(args[0], I(64), I_); return None
    w.hooks[INV] = invh
    it = Interp(w); res = []
    fv = sym(ctx, CFG, 'Goldilocks', 'inv', '%s (const %s &)' % (E, E)); out = it.call(fv, [Ptr(core.obj_words('b', [b], 8), 0)])
    if not (z3.is_expr(out) and z3.eq(out, I_) and z3.eq(w.inv_of, b)): return viol('inv/wrapper', 'inv(const Element&) does not return inv(result, in)', replay=dict(event='wrapper'))
    for form, ty in (('val', '%s (const %s &, const %s &)' % (E, E, E)), ('ref', 'void (%s &, const %s &, const %s &)' % (E, E, E))):
        w.reset(); w.hooks = dict(w.base_hooks); asm = []; contracts(w, asm); w.hooks[INV] = invh; it = Interp(w)
        fn = sym(ctx, CFG, 'Goldilocks', 'div', ty); oa = core.obj_words('a', [a], 8); ob_ = core.obj_words('b', [b], 8)
        if form == 'val': o = it.call(fn, [Ptr(oa, 0), Ptr(ob_, 0)])
        else: ro = Obj(8, 'r', 8); it.call(fn, [Ptr(ro, 0), Ptr(oa, 0), Ptr(ob_, 0)]); o = ro.cells[0]
        if not z3.eq(w.inv_of, b): return viol('div/divisor', 'div does not invert its second operand', replay=dict(event='div'))
        # div(a,b)·b ≡ a  given inv(b)·b ≡ 1
        r = smt.prove(lambda tr: (tr.prod(tobv(o, 64), b)[0] - tr.val(a)) % P == 0, assumptions=asm + [lambda tr: (tr.prod(I_, b)[0] - 1) % P == 0], timeout=60,
                      variants=[dict(limb_min=0, abstract=False, logic=None, share=0.5), dict(limb_min=0, abstract=False, logic='QF_NIA', share=0.5)])
        if r.status != 'unsat': return inconc('div/%s: %s %s' % (form, r.status, r.info))
    return ok('inv(const&) forwards to the loop; div(a,b)·b ≡ a for b ≢ 0 (both forms)', sample=dict(part='wrappers'))

# ---------------------------------------------------------------- exp
def ob_exp(ctx):
    try: r = ob_exp_special(ctx)
    except (Unsupported, AttributeError, TypeError, KeyError, IndexError, z3.Z3Exception) as e: r = inconc('%s: %s' % (type(e).__name__, e), structural=True)
    if r['status'] == 'inconclusive' and (r.get('structural') or 'loop header not reached' in r.get('detail', '') or 'exp paths' in r.get('detail', '')):
        g = exp_generic(ctx); g['detail'] = '[loop shape not the textbook one (%s); structure-independent check] %s' % (r['detail'][:100], g.get('detail', '')); return g
    return r

def ob_exp_special(ctx):
    w = core.world(ctx.bdir, MODS); w.hooks = dict(w.base_hooks)
    f = w.funcs[EXP]; header = [lab for lab in f.order if any(ins.op == 'phi' for ins in f.blocks[lab])][0]
    POW = z3.Function('POW', z3.IntSort(), z3.IntSort(), z3.IntSort())
    B0 = core.bv64('B'); E0 = core.bv64('E'); Hres = core.bv64('res_h'); Hbase = core.bv64('base_h'); Hexp = core.bv64('exp_h')
    results = {}
    def run(mode):
        outp = []
        def go(it):
            asm = []; contracts(w, asm); st = {'n': 0}
            res = Obj(8, 'result', 8)
            def lc(it_, prev, newv, env):
                st['n'] += 1
                basep = [v for k, v in env.items() if isinstance(v, Ptr) and v.obj is not None and v.obj.kind == 'alloca'][0]
                if mode == 'entry': raise LoopCut(dict(exp=list(newv.values())[0], res=res.cells.get(0), base=basep.obj.cells.get(0)))
                if st['n'] == 1:
                    res.cells[0] = Hres; basep.obj.cells[0] = Hbase; return {k: Hexp for k in newv}
                raise LoopCut(dict(exp=list(newv.values())[0], res=res.cells.get(0), base=basep.obj.cells.get(0)))
            it.loopcut = {(EXP, header): lc}
            try:
                it.call(EXP, [Ptr(res, 0), B0, E0]); return ('exit', res.cells.get(0), asm)
            except LoopCut as e: return ('back', e.vals, asm)
        return explore(w, go)
    # entry: (res, base, exp) = (1, B, E)
    for p in run('entry'):
        if p.status != 'ok': return viol('exp/event', str(p.result), replay=dict(event=str(p.result)))
        kind, vals, asm = p.result
        if kind != 'back': return inconc('exp: loop header not reached from entry')
        r = smt.prove(lambda tr: z3.And((tr.val(tobv(vals['res'], 64)) - 1) % P == 0, tr.val(tobv(vals['base'], 64)) == tr.val(B0), tr.val(tobv(vals['exp'], 64)) == tr.val(E0)), assumptions=list(p.pc), timeout=30)
        if r.status == 'sat': return confirm_native(ctx, 'exp', 'exp does not enter its loop with (result, base, exponent) = (1, B, E)', r.model)
        if r.status != 'unsat': return inconc('exp entry: %s' % r.status)
    # step / exit from a havocked header.  pw(b,e) := POW(b mod p, e); axioms instantiated at the header state:
    def axioms(tr):
        b = tr.val(Hbase); e = tr.val(Hexp); bb = (b * b) % P
        hb = e / 2
        return z3.And(z3.Implies(e == 0, POW(b % P, e) == 1),
                      z3.Implies(z3.And(e > 0, hb == 0), POW(b % P, e) == b % P),
                      z3.Implies(z3.And(e > 0, hb > 0, e % 2 == 1), (POW(b % P, e) - b * POW(bb, hb)) % P == 0),
                      z3.Implies(z3.And(e > 0, hb > 0, e % 2 == 0), (POW(b % P, e) - POW(bb, hb)) % P == 0))
    nb = ne = 0
    for p in run('step'):
        if p.status != 'ok': return confirm_native(ctx, 'exp', 'exp loop body: %s' % p.result, path_model(p.pc))
        kind, vals, asm = p.result
        if kind == 'back':
            nb += 1; r2 = tobv(vals['res'], 64); b2 = tobv(vals['base'], 64); e2 = tobv(vals['exp'], 64)
            def goal(tr):
                # res'·pw(base',exp') ≡ res·pw(base,exp); base' ≡ base², exp' = exp>>1
                b = tr.val(Hbase); e = tr.val(Hexp); bb = (b * b) % P
                return z3.And(tr.val(e2) == e / 2, (tr.val(b2) - b * b) % P == 0,
                              z3.Implies(tr.val(b2) % P == bb, (tr.val(r2) * POW(tr.val(b2) % P, tr.val(e2)) - tr.val(Hres) * POW(b % P, e)) % P == 0))
        else:
            ne += 1; r2 = tobv(vals, 64)
            def goal(tr): return (tr.val(r2) - tr.val(Hres) * POW(tr.val(Hbase) % P, tr.val(Hexp))) % P == 0
        r = smt.prove(goal, assumptions=list(p.pc) + asm + [axioms], timeout=90, variants=[dict(limb_min=0, abstract=False, logic=None, share=1.0)])
        if r.status == 'sat': return confirm_native(ctx, 'exp', 'exp loop body does not preserve result·POW(base,exp) from state %s' % r.model, r.model)
        if r.status != 'unsat': return inconc('exp %s edge: %s' % (kind, r.info))
    if not (nb and ne): return inconc('exp paths: %d back %d exit' % (nb, ne))
    # by-value form forwards
    w.reset(); w.hooks = dict(w.base_hooks); seen = {}
    def eh(it, args): seen['a'] = args; w.store(args[0], I(64), z3.BitVec('exp_out', 64)); return None
    w.hooks[EXP] = eh; it = Interp(w)
    fv = sym(ctx, CFG, 'Goldilocks', 'exp', '%s (%s, uint64_t)' % (E, E)); o = it.call(fv, [B0, E0])
    if not (z3.eq(seen['a'][1], B0) and z3.eq(seen['a'][2], E0) and str(o) == 'exp_out'): return viol('exp/wrapper', 'exp(base,exp) does not forward to exp(result,base,exp)', replay=dict(event='exp wrapper'))
    return ok('entry (1,B,E); %d back-edge / %d exit path(s) preserve result·POW(base,exp) ≡ POW(B,E); exponent 0 returns 1' % (nb, ne), sample=dict(part='exp', back=nb, exit=ne))

# ---------------------------------------------------------------- exp, structure-independent fallback
def exp_generic(ctx):
    """square-and-multiply loops of any shape whose state contains an accumulator A, a running base V and a remaining exponent G (a state word, or E >> counter)
       with   A·V^G ≡ B^E (mod p)   at the loop header: the roles are read off concrete header states, then one iteration of the real body from a
       havocked header (small counters enumerated) must preserve  A·POW(V,G)  with  V' ≡ V², G' = G >> 1, and every exit must return A·POW(V,G)."""
    w = core.world(ctx.bdir, MODS); w.hooks = dict(w.base_hooks)
    f = w.funcs[EXP]; pos = {lab: i for i, lab in enumerate(f.order)}
    heads = [lab for lab in f.order if any(ins.op == 'phi' for ins in f.blocks[lab]) and any(pos.get(l, -1) >= pos[lab] for ins in f.blocks[lab] if ins.op == 'phi' for v, l in ins.inc)]
    if not heads: return inconc('generic exp check: no loop header in Goldilocks::exp')
    def allocas(env): return {v.obj.name: v.obj for v in env.values() if isinstance(v, Ptr) and v.obj is not None and v.obj.kind == 'alloca'}
    def snapshot(newv, env, res, conc_only=True):
        d = {('phi', k): v for k, v in newv.items()}
        for nm, o in allocas(env).items():
            for idx, cv in o.cells.items(): d[('mem', nm, idx)] = cv
        d[('res', 0)] = res.cells.get(0)
        return {k: v for k, v in d.items() if (is_c(v) if conc_only else (v is not None and not isinstance(v, (Ptr, float)) and v is not POISON))}
    rng = ctx.rng('C10expgen'); samples = {h: [] for h in heads}
    BE = [(b, e) for b in (2, 3, 7, P - 1, P + 2, 2**64 - 1, rng.getrandbits(64)) for e in (1, 2, 3, 5, 6, 12, 255, 2**32 + 5, 2**63 + 1, 2**64 - 1, rng.getrandbits(64), rng.getrandbits(20))]
    for (b, e) in BE:
        w.reset(); w.hooks = dict(w.base_hooks); it = Interp(w); res = Obj(8, 'result', 8); cnt = {h: 0 for h in heads}
        def mk(h):
            def lc(it_, prev, newv, env):
                cnt[h] += 1
                if cnt[h] <= 6: samples[h].append((b, e, snapshot(newv, env, res)))
                return newv
            return lc
        it.loopcut = {(EXP, h): mk(h) for h in heads}
        try: it.call(EXP, [Ptr(res, 0), b, e])
        except (Violation, Terminated, Unsupported) as ex: return inconc('generic exp check: concrete run exp(%#x,%d) ended with %s' % (b, e, ex))
        if not is_c(res.cells.get(0)) or res.cells[0] % P != pow(b, e, P): return confirm_native(ctx, 'exp', 'concrete interpretation of exp(%#x, %d) returns %s' % (b, e, res.cells.get(0)), {'b': b, 'e': e})
    header = max(heads, key=lambda h: len(samples[h])); S = samples[header]
    if len(S) < 20: return inconc('generic exp check: loop header reached only %d times in the concrete runs' % len(S))
    comps = sorted(k for k in S[0][2] if all(k in sn for _, _, sn in S))
    small = [c for c in comps if all(sn[c] <= 64 for _, _, sn in S)]
    roles = None
    for A in comps:
        for V in comps:
            if V == A or A in small or V in small: continue
            for G in [('c', c) for c in comps if c not in (A, V)] + [('shr', c) for c in small]:
                def gval(e, sn): return sn[G[1]] if G[0] == 'c' else (e >> sn[G[1]])
                if all((sn[A] * pow(sn[V], gval(e, sn), P) - pow(b, e, P)) % P == 0 for b, e, sn in S) and len({gval(e, sn) for b, e, sn in S}) > 5: roles = (A, V, G); break
            if roles: break
        if roles: break
    if roles is None: return inconc('generic exp check: no (accumulator, base, remaining exponent) roles with A·V^G ≡ B^E among the loop state %s' % (comps,))
    A, V, G = roles
    gmin = min((sn[G[1]] if G[0] == 'c' else (e >> sn[G[1]])) for b, e, sn in S)       # smallest remaining exponent seen at the header: candidate lower bound
    POW = z3.Function('POW', z3.IntSort(), z3.IntSort(), z3.IntSort())
    B0 = core.bv64('B'); E0 = core.bv64('E'); HA = core.bv64('acc_h'); HV = core.bv64('base_h'); HG = core.bv64('exp_h')
    counters = [G[1]] if G[0] == 'shr' else []
    pw = {ins.res: w.rty(ins.ty).bits for ins in f.blocks[header] if ins.op == 'phi' and w.rty(ins.ty).kind == 'int'}
    def run(mode, cv=None):
        def go(it):
            asm = []; contracts(w, asm); st = {'n': 0}; res = Obj(8, 'result', 8)
            def put(c, val, newv, env):
                if c[0] == 'phi': newv[c[1]] = val if pw.get(c[1], 64) == 64 or is_c(val) else z3.Extract(pw[c[1]] - 1, 0, val)
                elif c[0] == 'mem': allocas(env)[c[1]].cells[c[2]] = val
                else: res.cells[0] = val
            def lc(it_, prev, newv, env):
                st['n'] += 1
                if mode == 'entry' or st['n'] == 2: raise LoopCut(snapshot(newv, env, res, conc_only=False))
                newv = dict(newv)
                for k in list(newv):        # every other loop-carried value is arbitrary as well
                    if ('phi', k) not in (A, V) + ((G[1],) if True else ()): newv[k] = z3.BitVec('h_other_' + k.strip('%'), pw.get(k, 64))
                put(A, HA, newv, env); put(V, HV, newv, env)
                if G[0] == 'c': put(G[1], HG, newv, env)
                else: put(G[1], cv, newv, env)
                return newv
            it.loopcut = {(EXP, header): lc}
            try:
                it.call(EXP, [Ptr(res, 0), B0, E0]); return ('exit', res.cells.get(0), asm, st['n'])
            except LoopCut as e: return ('back', e.vals, asm, st['n'])
        return explore(w, go)
    def gterm(vals, cvv):
        """remaining exponent as a 64-bit term for a state: the state word, or E >> counter"""
        if G[0] == 'c': return tobv(vals[G[1]], 64)
        c = vals[G[1]] if not is_c(cvv) else cvv
        if not is_c(c): raise Unsupported('symbolic counter')
        return z3.LShR(E0, bvv(c, 64)) if c < 64 else bvv(0, 64)
    def axioms_at(bt, gt):
        def unfold(b, e):
            bb = (b * b) % P; hb = e / 2
            return [z3.Implies(e == 0, POW(b % P, e) == 1), z3.Implies(z3.And(e > 0, hb == 0), POW(b % P, e) == b % P),
                    z3.Implies(z3.And(e > 0, hb > 0, e % 2 == 1), (POW(b % P, e) - b * POW(bb, hb)) % P == 0),
                    z3.Implies(z3.And(e > 0, hb > 0, e % 2 == 0), (POW(b % P, e) - POW(bb, hb)) % P == 0)]
        def ax(tr):
            # the defining recursion of POW, unfolded at the header state and once more at (base^2, remaining >> 1): an exit may follow a last squaring
            b = tr.val(bt); e = tr.val(gt); bb = (b * b) % P
            return z3.And(unfold(b, e) + unfold(bb, e / 2))
        return ax
    ONE = [dict(limb_min=0, abstract=False, logic=None, share=1.0)]
    def attempt(nz):
        """nz: strengthen the invariant by 'remaining exponent != 0 at the header' (needed by loops that peel the top bit); it is then proved at entry and on every back edge"""
        nq = 0; nb = ne = 0
        # entry
        for p_ in run('entry'):
            if p_.status != 'ok': return confirm_native(ctx, 'exp', 'exp before its loop: %s' % p_.result, path_model(p_.pc))
            kind, vals, asm, narr = p_.result
            if kind == 'exit':
                r = smt.prove(lambda tr: (tr.val(tobv(vals, 64)) - POW(tr.val(B0) % P, tr.val(E0))) % P == 0, assumptions=list(p_.pc) + asm + [axioms_at(B0, E0)], timeout=60, variants=ONE, bitprecise=False); nq += 1
                if r.status == 'sat': return confirm_native(ctx, 'exp', 'exp returns without entering its loop with a value that is not B^E', r.model)
                if r.status != 'unsat': return inconc('generic exp check: early return: %s' % r.status)
                continue
            try: g0 = gterm(vals, None)
            except (Unsupported, KeyError): return inconc('generic exp check: entry state incomplete')
            r = smt.prove(lambda tr: z3.And((tr.val(tobv(vals[A], 64)) - 1) % P == 0, (tr.val(tobv(vals[V], 64)) - tr.val(B0)) % P == 0, tr.val(g0) == tr.val(E0), (tr.val(g0) >= gmin) if nz else z3.BoolVal(True)), assumptions=list(p_.pc) + asm, timeout=60, bitprecise=False); nq += 1
            if r.status == 'sat': return confirm_native(ctx, 'exp', 'exp does not enter its loop with (accumulator, base, remaining exponent) = (1, B, E)', r.model)
            if r.status != 'unsat': return inconc('generic exp check: entry: %s' % r.status)
        # step
        import time as _t
        deadline = _t.time() + (1800 if ctx.thorough else 240)
        for cv in (range(0, 65) if counters else [None]):
            if _t.time() > deadline: return inconc('generic exp check: time budget exhausted at counter %s of 64 (every counter value is a separate inductive step)' % cv)
            gH = HG if G[0] == 'c' else (z3.LShR(E0, bvv(cv, 64)) if cv < 64 else bvv(0, 64))
            for p_ in run('step', cv):
                if p_.status != 'ok': return confirm_native(ctx, 'exp', 'exp loop body: %s' % p_.result, path_model(p_.pc))
                kind, vals, asm, narr = p_.result
                if narr == 0: continue
                inv_nz = [lambda tr: tr.val(gH) >= gmin] if nz else []
                base = list(p_.pc) + asm + [axioms_at(HV, gH)] + inv_nz
                feas = smt.prove(lambda tr: z3.BoolVal(False), assumptions=list(p_.pc) + asm + inv_nz, timeout=20, bitprecise=False); nq += 1
                if feas.status == 'unsat': continue
                if kind == 'back':
                    nb += 1
                    try: a2 = tobv(vals[A], 64); v2 = tobv(vals[V], 64); g2 = gterm(vals, None)
                    except (Unsupported, KeyError) as ex: return inconc('generic exp check: back-edge state incomplete (%s)' % ex)
                    def goal(tr):
                        b = tr.val(HV); e = tr.val(gH); bb = (b * b) % P
                        return z3.And(tr.val(g2) == e / 2, (tr.val(v2) - b * b) % P == 0, (tr.val(g2) >= gmin) if nz else z3.BoolVal(True),
                                      z3.Implies(tr.val(v2) % P == bb, (tr.val(a2) * POW(tr.val(v2) % P, tr.val(g2)) - tr.val(HA) * POW(b % P, e)) % P == 0))
                else:
                    ne += 1; r2 = tobv(vals, 64)
                    def goal(tr): return (tr.val(r2) - tr.val(HA) * POW(tr.val(HV) % P, tr.val(gH))) % P == 0
                r = smt.prove(goal, assumptions=base, timeout=90, variants=ONE, bitprecise=False); nq += 1
                if r.status == 'sat': return confirm_native(ctx, 'exp', 'exp loop body does not preserve accumulator·POW(base, remaining exponent) from state %s (%s edge, counter %s, lower bound %s)' % (r.model, kind, cv, gmin if nz else None), r.model)
                if r.status != 'unsat': return inconc('generic exp check: %s edge%s: %s' % (kind, '' if cv is None else ' (counter %d)' % cv, r.info[-160:]))
        return ('done', nq, nb, ne)
    # counter-driven loops need the lower bound on the remaining exponent from the start (the header is only reached while bits remain)
    r_ = attempt(False) if not counters else attempt(True)
    if not counters and not isinstance(r_, tuple) and r_['status'] != 'violation': r_ = attempt(True)
    if not isinstance(r_, tuple): return r_
    _, nq, nb, ne = r_
    if not (nb and ne): return inconc('generic exp check: %d back-edge and %d exit paths' % (nb, ne))
    return ok('structure-independent check: roles accumulator=%s base=%s remaining exponent=%s read off %d concrete header states; entry (1,B,E); %d back-edge / %d exit path(s) preserve accumulator·POW(base, remaining); %d queries'
              % (A, V, (G[1] if G[0] == 'c' else 'E >> %s' % (G[1],)), len(S), nb, ne, nq), sample=dict(part='exp-generic', roles=[str(A), str(V), str(G)]))

def path_model(pc):
    s = z3.Solver(); s.set('timeout', 20000); s.add(pc)
    if s.check() != z3.sat: return {}
    m = s.model(); return {str(d): m[d].as_long() for d in m.decls() if z3.is_bv_value(m[d])}
def confirm_native(ctx, which, text, model):
    """an inductive-step counterexample is a statement about the loop body from an arbitrary state; before it is reported it is turned into
       a concrete call that misbehaves on the native build (operands taken from the model plus a few fixed values)"""
    cands = [v % 2**64 for v in model.values()] + [1, 2, 3, 5, 7, 10, 255, 2**32, 2**32 + 1, P - 1, P - 2, P + 2, 2**63, 2**64 - 1, 0x123456789abcdef]
    if which == 'inv':
        f = core.nfn(ctx.bdir, CFG, INV)
        # operands with long remainder sequences (p/a close to the golden ratio, and ratios of consecutive Fibonacci numbers): step-count limits show up here
        import math
        phi_ = (1 + 5 ** 0.5) / 2; base_ = int(P / phi_); longs = []
        fa, fb = 1, 1
        while fb < 2**64: fa, fb = fb, fa + fb
        g0, g1 = fa, fb
        for _ in range(12):
            longs.append((P * g0 // g1) % 2**64); longs.append((P * g0 // g1 + 1) % 2**64); g0, g1 = g1 - g0, g0
        cf = P * 0x9E3779B97F4A7C15 >> 64      # p·(φ-1) with 64-bit precision
        longs += [cf + d for d in range(-3000, 3001)]
        def batch():
            bad = []
            for x in longs:
                if x % P == 0 or not (0 < x < 2**64): continue
                a = ctypes.c_uint64(x); r = ctypes.c_uint64(0); f(ctypes.byref(r), ctypes.byref(a))
                if (r.value * x) % P != 1: bad.append((x, r.value))
                if len(bad) >= 3: break
            return bad
        br = core.forked(batch, timeout=120)
        if br[0] == 'ok' and br[1]:
            x, rv = br[1][0]
            return viol('inv', '%s; native: inv(%#x) -> %#x, inv(a)·a = %d (operand with a long remainder sequence)' % (text, x, rv, (rv * x) % P), replay=dict(kind='inv-value', a=x))
        for x in cands:
            if x % P == 0: continue
            def body(x=x):
                a = ctypes.c_uint64(x); r = ctypes.c_uint64(0); f(ctypes.byref(r), ctypes.byref(a)); return r.value
            res = core.forked(body, timeout=20)
            if res[0] != 'ok' or (res[1] * x) % P != 1:
                return viol('inv', '%s; native: inv(%#x) -> %s, inv(a)·a = %s' % (text, x, res, (res[1] * x) % P if res[0] == 'ok' else 'n/a'), replay=dict(kind='inv-value', a=x))
    else:
        f = core.nfn(ctx.bdir, CFG, EXP)
        for b in [0, P] + cands[:12] + [2**64 - 2**31 + 1, 2**64 - 5]:
            for e in [0, 1, 2, 3, 5, 6, 7, 8, 12, 255, 2**32 + 5, 2**64 - 1, P - 1, P - 2, P, 2 * (P - 1) % 2**64, 2**63, 2**32 - 1, 2**32] + [v % 2**64 for v in model.values()][:4]:
                def body(b=b, e=e):
                    r = ctypes.c_uint64(0); f(ctypes.byref(r), ctypes.c_uint64(b), ctypes.c_uint64(e)); return r.value
                res = core.forked(body, timeout=20)
                if res[0] != 'ok' or res[1] % P != pow(b, e, P): return viol('exp', '%s; native: exp(%#x, %d) -> %s, expected %d' % (text, b, e, res, pow(b, e, P)), replay=dict(kind='exp-value', b=b, e=e))
    return inconc('INDUCTIVE-STEP-FAILURE not reproduced by a concrete native call: ' + text)

def obligations(ctx):
    from . import C03
    import os
    obs = [Ob('inv/refusal', ob_inv_refusal), Ob('inv/entry', ob_inv_entry), Ob('inv/step', ob_inv_step, timeout=1500), Ob('inv+div/wrappers', ob_inv_wrapper), Ob('exp', ob_exp, timeout=2400)]
    # thorough tier: the structure-independent check runs in addition to the specialised one (two independent arguments for the same loop)
    if ctx.thorough or os.environ.get('GV_C10_GENERIC') == '1': obs.append(Ob('inv/generic', inv_generic, timeout=1500))
    return obs + C03.contract_obs(ctx)

def validate(ctx):
    """concrete: native inv/exp vs interpreter vs python pow"""
    rng = ctx.rng('C10'); n = 0; bad = []
    w = core.world(ctx.bdir, MODS)
    fi = core.nfn(ctx.bdir, CFG, INV); fe = core.nfn(ctx.bdir, CFG, EXP)
    xs = [x for x in [1, 2, 3, P - 1, P + 1, 2**64 - 1, 2**32, 7] + [rng.getrandbits(64) for _ in range(6)] if x % P]
    es = [rng.getrandbits(rng.choice([1, 3, 8, 64])) for _ in xs]
    def nat():
        out = []
        for x, e in zip(xs, es):
            a = ctypes.c_uint64(x); r = ctypes.c_uint64(0); fi(ctypes.byref(r), ctypes.byref(a))
            r2 = ctypes.c_uint64(0); fe(ctypes.byref(r2), ctypes.c_uint64(x), ctypes.c_uint64(e)); out.append((r.value, r2.value))
        return out
    nres = core.forked(nat, timeout=60)
    if nres[0] != 'ok': return {'vectors': 0, 'mismatches': [], 'note': 'native inv/exp run ended with %s %s (left to the solver to report)' % nres}
    for (x, e, (rv, r2v)) in zip(xs, es, nres[1]):
        class _V: pass
        r = _V(); r.value = rv; r2 = _V(); r2.value = r2v
        w.reset(); w.hooks = dict(w.base_hooks); it = Interp(w); ro = Obj(8, 'r', 8); it.call(INV, [Ptr(ro, 0), Ptr(core.obj_words('a', [x], 8), 0)]); n += 1
        if ro.cells[0] != r.value: bad.append('inv(%#x): native %#x interpreter %#x' % (x, r.value, ro.cells[0]))
        w.reset(); w.hooks = dict(w.base_hooks); it = Interp(w); ro = Obj(8, 'r', 8)
        try: it.call(EXP, [Ptr(ro, 0), x, e]); n += 1
        except Violation: continue
        if ro.cells[0] != r2.value: bad.append('exp(%#x,%d): native %#x interpreter %#x' % (x, e, r2.value, ro.cells[0]))
    return {'vectors': n, 'mismatches': bad}

def replay(ctx, d):
    if d.get('kind') in ('exit', 'returns'):
        x = d['a']
        def body():
            f = core.nfn(ctx.bdir, CFG, INV); a = ctypes.c_uint64(x); r = ctypes.c_uint64(0); f(ctypes.byref(r), ctypes.byref(a)); return r.value
        res = core.forked(body)
        exited = res[0] == 'exit'
        return (exited != (x % P == 0)), 'inv(%#x): native run %s' % (x, res,)
    if d.get('kind') == 'inv-value':
        x = d['a']; f = core.nfn(ctx.bdir, CFG, INV)
        def body():
            a = ctypes.c_uint64(x); r = ctypes.c_uint64(0); f(ctypes.byref(r), ctypes.byref(a)); return r.value
        res = core.forked(body, timeout=20)
        return res[0] != 'ok' or (res[1] * x) % P != 1, 'inv(%#x) -> %s' % (x, res,)
    if d.get('kind') == 'exp-value':
        f = core.nfn(ctx.bdir, CFG, EXP)
        def body():
            r = ctypes.c_uint64(0); f(ctypes.byref(r), ctypes.c_uint64(d['b']), ctypes.c_uint64(d['e'])); return r.value
        res = core.forked(body, timeout=20)
        return res[0] != 'ok' or res[1] % P != pow(d['b'], d['e'], P), 'exp(%#x,%d) -> %s, expected %d' % (d['b'], d['e'], res, pow(d['b'], d['e'], P))
    return True, str(d)
