# C10 — base-field inverse, division and power are exact and total on non-zero operands.
#  inv: inductive step on the real Euclid loop body from a havocked loop head (no iteration bound), entry and exit obligations, zero refusal.
#  exp: inductive step on the real square-and-multiply loop with POW an uninterpreted function carrying the defining recursion.
import z3, ctypes
from .. import core, smt, kern, bv2int
from ..interp import *
from ..runner import Ob, ok, viol, inconc
from ..kern import P, sym

CFG = 'avx2'; MODS = ['cen_avx2', 'gbf_avx2']
E = 'Goldilocks::Element'
INV = '@_ZN10Goldilocks3invERNS_7ElementERKS0_'; EXP = '@_ZN10Goldilocks3expERNS_7ElementES0_m'
META = dict(
    functions=['Goldilocks::inv(Element&, const Element&) (Euclid loop)', 'Goldilocks::inv(const Element&)', 'Goldilocks::div (both forms)', 'Goldilocks::exp (both forms)', 'isZero/toU64/fromU64 (interpreted)'],
    bounds={'quick': 'no iteration bound: one inductive step of each loop body from an arbitrary state satisfying the invariant, plus entry and exit obligations; all 64-bit operands and exponents', 'thorough': 'same; cvc5 cross-check'},
    outside=[], stubs=['std::cerr insertion: no-op', 'exit: ends the path (recorded)'],
    assumptions=['Goldilocks::mul/sub contracts (re-proved bit-precisely in this run)'],
    trusted_base=['Euclid\'s algorithm on (p, a) ends with r = gcd(p, a); p is prime (Pratt certificate with generator 7 checked by ground arithmetic in this run), hence r = 1 for a ≢ 0',
                  'the recursion POW(b,0)=1, POW(b,e)=b^(e&1)·POW(b², e>>1) defines b^e', 'a strictly decreasing non-negative variant implies termination'])

def contracts(w, asm, tag=''):
    """B-mode contracts of Goldilocks::mul/sub/add(Element&, const Element&, const Element&): fresh output ≡ a op b"""
    cnt = [0]
    def mk(op):
        def h(it, a):
            r, x, y = a; X = tobv(w.load(x, I(64)), 64); Y = tobv(w.load(y, I(64)), 64)
            cnt[0] += 1; o = z3.BitVec('%s%s%d' % (tag, op, cnt[0]), 64); w.store(r, I(64), o)
            if op == 'mul': asm.append(lambda tr: (tr.val(o) - tr.prod(X, Y)[0]) % P == 0)
            elif op == 'sub': asm.append(lambda tr: (tr.val(o) - (tr.val(X) - tr.val(Y))) % P == 0)
            else: asm.append(lambda tr: (tr.val(o) - (tr.val(X) + tr.val(Y))) % P == 0)
            return None
        return h
    for op in ('mul', 'sub', 'add'):
        w.hooks[sym_(op)] = mk(op)
def sym_(op): return '@_ZN10Goldilocks3%sERNS_7ElementERKS0_S3_' % op

def pratt():
    """p - 1 = 2^32 · 3 · 5 · 17 · 257 · 65537; 7 is a primitive root: 7^(p-1) = 1 and 7^((p-1)/q) != 1 for each prime factor q"""
    fac = [2, 3, 5, 17, 257, 65537]; n = P - 1
    for q in fac:
        while n % q == 0: n //= q
    if n != 1: return False
    for q in fac[1:]:
        if any(q % d == 0 for d in range(2, int(q ** 0.5) + 1)): return False
    return pow(7, P - 1, P) == 1 and all(pow(7, (P - 1) // q, P) != 1 for q in fac)

# ---------------------------------------------------------------- inv
def inv_run(ctx, mode):
    """mode 'entry': run from function entry until the loop header is reached (returns entry phi values) or the function ends
       mode 'step' : havoc the loop header, run one body iteration; returns ('back', vals) or ('exit', result)"""
    w = core.world(ctx.bdir, MODS); w.hooks = dict(w.base_hooks)
    f = w.funcs[INV]
    header = [lab for lab in f.order if sum(1 for ins in f.blocks[lab] if ins.op == 'phi') == 4]
    if len(header) != 1: raise Unsupported('Euclid loop header not identified (%d candidates)' % len(header))
    header = header[0]; phis = [ins.res for ins in f.blocks[header] if ins.op == 'phi']
    out = []
    a = core.bv64('a')
    H = {n: core.bv64(n) for n in ('t', 'r', 'newt', 'newr')}
    def go(it):
        asm = []; contracts(w, asm)
        state = {'n': 0}
        def lc(it_, prev, newv, env):
            state['n'] += 1
            if mode == 'entry': raise LoopCut(dict(newv))
            if state['n'] == 1:
                # identify the roles of the four phis by their entry values: t=0, r=p, newt=1, newr=toU64(a)
                roles = {}
                for nm, v in newv.items():
                    if is_c(v) and v == 0: roles[nm] = 't'
                    elif is_c(v) and v == P: roles[nm] = 'r'
                    elif is_c(v) and v == 1: roles[nm] = 'newt'
                    else: roles[nm] = 'newr'
                if sorted(roles.values()) != ['newr', 'newt', 'r', 't']: raise Unsupported('loop state roles not identified: %s' % roles)
                state['roles'] = roles
                return {nm: H[roles[nm]] for nm in newv}
            raise LoopCut({state['roles'][nm]: v for nm, v in newv.items()})
        it.loopcut = {(INV, header): lc}
        res = Obj(8, 'result', 8); oa = core.obj_words('a', [a], 8)
        try:
            it.call(INV, [Ptr(res, 0), Ptr(oa, 0)])
            return ('exit', res.cells.get(0), asm, state.get('roles'))
        except LoopCut as e: return ('back', e.vals, asm, state.get('roles'))
    paths = explore(w, go)
    return a, H, paths

def ob_inv_refusal(ctx):
    """zero operand (both representations) -> exit(-1) after the diagnostic, never a value; non-zero operand -> never exit"""
    a, H, paths = inv_run(ctx, 'entry')
    nexit = 0
    for p in paths:
        if p.status == 'terminated' and p.result.kind == 'exit':
            nexit += 1
            r = smt.prove(lambda tr: tr.val(a) % P == 0, assumptions=list(p.pc), timeout=30)
            if r.status != 'unsat': return viol('inv/refusal', 'inv exits for a non-zero operand a=%#x' % r.model.get('a', 0), replay=dict(a=r.model.get('a', 0), kind='exit')) if r.status == 'sat' else inconc(r.info)
            if str(p.result.msg) not in ('4294967295', '-1', str(mask(32))): return viol('inv/exit-code', 'exit status %s' % p.result.msg, replay=dict(event='exit code'))
        elif p.status == 'ok':
            r = smt.prove(lambda tr: tr.val(a) % P != 0, assumptions=list(p.pc), timeout=30)
            if r.status == 'sat':
                x = r.model.get('a', 0)
                return viol('inv/returns-on-zero', 'inv returns a value for the zero operand a=%#x' % x, replay=dict(a=x, kind='returns'))
            if r.status != 'unsat': return inconc(r.info)
        else: return viol('inv/event', 'inv: %s' % p.result, replay=dict(event=str(p.result)))
    if nexit == 0: return viol('inv/no-refusal', 'no path refuses the zero operand', replay=dict(event='no exit path'))
    return ok('%d paths: exit(-1) exactly for a ≡ 0 (a = 0 and a = p)' % len(paths), sample=dict(part='refusal', paths=len(paths)))

def ob_inv_entry(ctx):
    """on the non-refusing path the loop is entered with (t, r, newt, newr) = (0, p, 1, can(a)), which satisfies the invariant"""
    a, H, paths = inv_run(ctx, 'entry'); seen = 0
    for p in paths:
        if p.status != 'ok': continue
        kind, vals, asm, _ = p.result
        if kind == 'exit':
            # loop skipped: only allowed if infeasible (can(a) == 0 contradicts the refusal)
            r = smt.prove(lambda tr: z3.BoolVal(False), assumptions=list(p.pc), timeout=30)
            if r.status == 'sat': return viol('inv/skip', 'Euclid loop skipped for a=%#x' % r.model.get('a', 0), replay=dict(event='skip'))
            continue
        seen += 1; vs = list(vals.values())
        def goal(tr):
            A = tr.val(a); cana = z3.If(A >= P, A - P, A); V = [tr.val(tobv(v, 64)) for v in vs]
            return z3.And(z3.Or([v == 0 for v in V]), z3.Or([v == P for v in V]), z3.Or([v == 1 for v in V]), z3.Or([v == cana for v in V]), cana != 0, cana < P)
        r = smt.prove(goal, assumptions=list(p.pc), timeout=30)
        if r.status != 'unsat': return inconc('entry state: %s %s' % (r.status, r.info)) if r.status != 'sat' else viol('inv/entry', 'loop entry state is not (0,p,1,can(a)) for a=%#x' % r.model.get('a', 0), replay=dict(event='entry'))
    if not seen: return inconc('loop header never reached')
    # invariant at entry (ground reasoning with symbolic A): 0·A - p = (-1)·p ; 1·A - can(A) ∈ {0, p}
    A = z3.Int('A'); cana = z3.If(A >= P, A - P, A)
    s = z3.Solver(); s.add(A >= 0, A < 2**64, cana != 0); s.add(z3.Not(z3.And(0 * A - P == (-1) * P, z3.Or(1 * A - cana == 0, 1 * A - cana == P), 0 < cana, cana < P)))
    if smt.check(s) != z3.unsat: return inconc('entry invariant')
    return ok('entry state (0, p, 1, can(a)) establishes the invariant with witnesses m1 = -1, m2 in {0,1}', sample=dict(part='entry'))

def ob_inv_step(ctx):
    a, H, paths = inv_run(ctx, 'step')
    pre_bv = [z3.ULT(bvv(0, 64), H['newr']), z3.ULT(H['newr'], H['r']), z3.ULE(H['r'], bvv(P, 64)), z3.ULT(H['t'], bvv(P, 64)), z3.ULT(H['newt'], bvv(P, 64))]
    nback = nexit = 0; nq = 0
    for p in paths:
        if p.status == 'terminated' and p.result.kind == 'exit': continue      # the refusal path never reaches the loop (see inv/refusal)
        if p.status != 'ok': return viol('inv/step-event', 'loop body: %s' % p.result, replay=dict(event=str(p.result)))
        kind, vals, asm, roles = p.result
        if roles is None: continue
        base = pre_bv + list(p.pc) + asm
        # is this path feasible at all under the invariant's range part?
        feas = smt.prove(lambda tr: z3.BoolVal(False), assumptions=base, timeout=30)
        if feas.status == 'unsat': continue
        if kind == 'back':
            nback += 1; t2, r2, nt2, nr2 = (tobv(vals[k], 64) for k in ('t', 'r', 'newt', 'newr'))
        else:
            nexit += 1
            # exit edge: the returned value is the new t, and the new newr is 0.  Recover the final state from the path: returned word = result
            t2 = tobv(vals, 64); r2 = H['newr']; nt2 = None; nr2 = None
        T_, R_, NT, NR = (H[k] for k in ('t', 'r', 'newt', 'newr'))
        goals = []
        goals.append(('t\' = newt', lambda tr: tr.val(t2) == tr.val(NT)))
        if kind == 'back':
            goals.append(('r\' = newr', lambda tr: tr.val(r2) == tr.val(NR)))
            goals.append(('newr\' = r mod newr (Euclid step; variant decreases)', lambda tr: tr.val(nr2) == tr.val(R_) % tr.val(NR)))
            goals.append(('newr\' != 0 on the back edge', lambda tr: tr.val(nr2) != 0))
            goals.append(('newt\' < p', lambda tr: tr.val(nt2) < P))
            goals.append(('newt\' ≡ t - (r div newr)·newt', lambda tr: (tr.val(nt2) - (tr.val(T_) - tr.prod(z3.UDiv(R_, NR), NT)[0])) % P == 0))
        for lab, g in goals:
            r = smt.prove(g, assumptions=base, timeout=60); nq += 1
            if r.status == 'sat': return confirm_native(ctx, 'inv', 'Euclid loop body violates "%s" from state %s' % (lab, {k: hex(v) for k, v in r.model.items()}), r.model)
            if r.status != 'unsat': return inconc('%s: %s' % (lab, r.info))
        if kind == 'exit':
            # exit happens exactly when r mod newr == 0
            r = smt.prove(lambda tr: tr.val(R_) % tr.val(NR) == 0, assumptions=base, timeout=60); nq += 1
            if r.status != 'unsat': return inconc('exit condition: %s' % r.status)
    if not (nback and nexit): return inconc('loop body paths: %d back, %d exit' % (nback, nexit))
    # invariant preservation from the code facts (pure integers, explicit witnesses)
    t, nt, r, nr, A, m1, m2, K, nt2 = z3.Ints('t newt r newr A m1 m2 K newt2')
    q = r / nr; nr2 = r % nr
    hyp = [0 < nr, nr < r, r <= P, 0 <= t, t < P, 0 <= nt, nt < P, t * A - r == m1 * P, nt * A - nr == m2 * P, nt2 == t - q * nt + K * P, 0 <= nt2, nt2 < P]
    for lab, g in (('range/variant', z3.And(0 <= nr2, nr2 < nr, nr <= P)), ('t\'·A - r\' = m2·p', nt * A - nr == m2 * P), ('newt\'·A - newr\' = (m1 - q·m2 + K·A)·p', nt2 * A - nr2 == (m1 - q * m2 + K * A) * P)):
        s = z3.Solver(); s.set('timeout', 60000); s.add(hyp); s.add(z3.Not(g)); rr = smt.check(s); nq += 1
        if rr != z3.unsat: return inconc('invariant preservation "%s": %s' % (lab, rr))
    if not pratt(): return inconc('Pratt certificate for p failed')
    return ok('%d back-edge and %d exit path(s); %d queries: the body performs one Euclid step (r,newr) -> (newr, r mod newr) and preserves t·a ≡ r, newt·a ≡ newr (mod p) with explicit witnesses; exit returns t with t·a ≡ gcd' % (nback, nexit, nq),
              sample=dict(part='step', back=nback, exit=nexit, invariant='0<newr<r<=p, t,newt<p, t·a-r=m1·p, newt·a-newr=m2·p'))

def ob_inv_wrapper(ctx):
    """inv(const Element&) and div are wrappers: interpret them over the inv contract"""
    w = core.world(ctx.bdir, MODS); w.hooks = dict(w.base_hooks); asm = []; contracts(w, asm)
    a = core.bv64('a'); b = core.bv64('b'); I_ = core.bv64('inv_b')
    def invh(it, args):
        x = tobv(w.load(args[1], I(64)), 64); w.inv_of = x; w.store(args[0], I(64), I_); return None
    w.hooks[INV] = invh
    it = Interp(w); res = []
    fv = sym(ctx, CFG, 'Goldilocks', 'inv', '%s (const %s &)' % (E, E)); out = it.call(fv, [Ptr(core.obj_words('b', [b], 8), 0)])
    if not (z3.is_expr(out) and z3.eq(out, I_) and z3.eq(w.inv_of, b)): return viol('inv/wrapper', 'inv(const Element&) does not return inv(result, in)', replay=dict(event='wrapper'))
    for form, ty in (('val', '%s (const %s &, const %s &)' % (E, E, E)), ('ref', 'void (%s &, const %s &, const %s &)' % (E, E, E))):
        w.reset(); w.hooks = dict(w.base_hooks); asm = []; contracts(w, asm); w.hooks[INV] = invh; it = Interp(w)
        fn = sym(ctx, CFG, 'Goldilocks', 'div', ty); oa = core.obj_words('a', [a], 8); ob_ = core.obj_words('b', [b], 8)
        if form == 'val': o = it.call(fn, [Ptr(oa, 0), Ptr(ob_, 0)])
        else: ro = Obj(8, 'r', 8); it.call(fn, [Ptr(ro, 0), Ptr(oa, 0), Ptr(ob_, 0)]); o = ro.cells[0]
        if not z3.eq(w.inv_of, b): return viol('div/divisor', 'div does not invert its second operand', replay=dict(event='div'))
        # div(a,b)·b ≡ a  given inv(b)·b ≡ 1
        r = smt.prove(lambda tr: (tr.prod(tobv(o, 64), b)[0] - tr.val(a)) % P == 0, assumptions=asm + [lambda tr: (tr.prod(I_, b)[0] - 1) % P == 0], timeout=60,
                      variants=[dict(limb_min=0, abstract=False, logic=None, share=0.5), dict(limb_min=0, abstract=False, logic='QF_NIA', share=0.5)])
        if r.status != 'unsat': return inconc('div/%s: %s %s' % (form, r.status, r.info))
    return ok('inv(const&) forwards to the loop; div(a,b)·b ≡ a for b ≢ 0 (both forms)', sample=dict(part='wrappers'))

# ---------------------------------------------------------------- exp
def ob_exp(ctx):
    w = core.world(ctx.bdir, MODS); w.hooks = dict(w.base_hooks)
    f = w.funcs[EXP]; header = [lab for lab in f.order if any(ins.op == 'phi' for ins in f.blocks[lab])][0]
    POW = z3.Function('POW', z3.IntSort(), z3.IntSort(), z3.IntSort())
    B0 = core.bv64('B'); E0 = core.bv64('E'); Hres = core.bv64('res_h'); Hbase = core.bv64('base_h'); Hexp = core.bv64('exp_h')
    results = {}
    def run(mode):
        outp = []
        def go(it):
            asm = []; contracts(w, asm); st = {'n': 0}
            res = Obj(8, 'result', 8)
            def lc(it_, prev, newv, env):
                st['n'] += 1
                basep = [v for k, v in env.items() if isinstance(v, Ptr) and v.obj is not None and v.obj.kind == 'alloca'][0]
                if mode == 'entry': raise LoopCut(dict(exp=list(newv.values())[0], res=res.cells.get(0), base=basep.obj.cells.get(0)))
                if st['n'] == 1:
                    res.cells[0] = Hres; basep.obj.cells[0] = Hbase; return {k: Hexp for k in newv}
                raise LoopCut(dict(exp=list(newv.values())[0], res=res.cells.get(0), base=basep.obj.cells.get(0)))
            it.loopcut = {(EXP, header): lc}
            try:
                it.call(EXP, [Ptr(res, 0), B0, E0]); return ('exit', res.cells.get(0), asm)
            except LoopCut as e: return ('back', e.vals, asm)
        return explore(w, go)
    # entry: (res, base, exp) = (1, B, E)
    for p in run('entry'):
        if p.status != 'ok': return viol('exp/event', str(p.result), replay=dict(event=str(p.result)))
        kind, vals, asm = p.result
        if kind != 'back': return inconc('exp: loop header not reached from entry')
        r = smt.prove(lambda tr: z3.And((tr.val(tobv(vals['res'], 64)) - 1) % P == 0, tr.val(tobv(vals['base'], 64)) == tr.val(B0), tr.val(tobv(vals['exp'], 64)) == tr.val(E0)), assumptions=list(p.pc), timeout=30)
        if r.status != 'unsat': return inconc('exp entry: %s' % r.status)
    # step / exit from a havocked header.  pw(b,e) := POW(b mod p, e); axioms instantiated at the header state:
    def axioms(tr):
        b = tr.val(Hbase); e = tr.val(Hexp); bb = (b * b) % P
        hb = e / 2
        return z3.And(z3.Implies(e == 0, POW(b % P, e) == 1),
                      z3.Implies(z3.And(e > 0, hb == 0), POW(b % P, e) == b % P),
                      z3.Implies(z3.And(e > 0, hb > 0, e % 2 == 1), (POW(b % P, e) - b * POW(bb, hb)) % P == 0),
                      z3.Implies(z3.And(e > 0, hb > 0, e % 2 == 0), (POW(b % P, e) - POW(bb, hb)) % P == 0))
    nb = ne = 0
    for p in run('step'):
        if p.status != 'ok': return confirm_native(ctx, 'exp', 'exp loop body: %s' % p.result, path_model(p.pc))
        kind, vals, asm = p.result
        if kind == 'back':
            nb += 1; r2 = tobv(vals['res'], 64); b2 = tobv(vals['base'], 64); e2 = tobv(vals['exp'], 64)
            def goal(tr):
                # res'·pw(base',exp') ≡ res·pw(base,exp); base' ≡ base², exp' = exp>>1
                b = tr.val(Hbase); e = tr.val(Hexp); bb = (b * b) % P
                return z3.And(tr.val(e2) == e / 2, (tr.val(b2) - b * b) % P == 0,
                              z3.Implies(tr.val(b2) % P == bb, (tr.val(r2) * POW(tr.val(b2) % P, tr.val(e2)) - tr.val(Hres) * POW(b % P, e)) % P == 0))
        else:
            ne += 1; r2 = tobv(vals, 64)
            def goal(tr): return (tr.val(r2) - tr.val(Hres) * POW(tr.val(Hbase) % P, tr.val(Hexp))) % P == 0
        r = smt.prove(goal, assumptions=list(p.pc) + asm + [axioms], timeout=90, variants=[dict(limb_min=0, abstract=False, logic=None, share=1.0)])
        if r.status == 'sat': return confirm_native(ctx, 'exp', 'exp loop body does not preserve result·POW(base,exp) from state %s' % r.model, r.model)
        if r.status != 'unsat': return inconc('exp %s edge: %s' % (kind, r.info))
    if not (nb and ne): return inconc('exp paths: %d back %d exit' % (nb, ne))
    # by-value form forwards
    w.reset(); w.hooks = dict(w.base_hooks); seen = {}
    def eh(it, args): seen['a'] = args; w.store(args[0], I(64), z3.BitVec('exp_out', 64)); return None
    w.hooks[EXP] = eh; it = Interp(w)
    fv = sym(ctx, CFG, 'Goldilocks', 'exp', '%s (%s, uint64_t)' % (E, E)); o = it.call(fv, [B0, E0])
    if not (z3.eq(seen['a'][1], B0) and z3.eq(seen['a'][2], E0) and str(o) == 'exp_out'): return viol('exp/wrapper', 'exp(base,exp) does not forward to exp(result,base,exp)', replay=dict(event='exp wrapper'))
    return ok('entry (1,B,E); %d back-edge / %d exit path(s) preserve result·POW(base,exp) ≡ POW(B,E); exponent 0 returns 1' % (nb, ne), sample=dict(part='exp', back=nb, exit=ne))

def path_model(pc):
    s = z3.Solver(); s.set('timeout', 20000); s.add(pc)
    if s.check() != z3.sat: return {}
    m = s.model(); return {str(d): m[d].as_long() for d in m.decls() if z3.is_bv_value(m[d])}
def confirm_native(ctx, which, text, model):
    """an inductive-step counterexample is a statement about the loop body from an arbitrary state; before it is reported it is turned into
       a concrete call that misbehaves on the native build (operands taken from the model plus a few fixed values)"""
    cands = [v % 2**64 for v in model.values()] + [1, 2, 3, 5, 7, 10, 255, 2**32, 2**32 + 1, P - 1, P - 2, P + 2, 2**63, 2**64 - 1, 0x123456789abcdef]
    if which == 'inv':
        f = core.nfn(ctx.bdir, CFG, INV)
        for x in cands:
            if x % P == 0: continue
            def body(x=x):
                a = ctypes.c_uint64(x); r = ctypes.c_uint64(0); f(ctypes.byref(r), ctypes.byref(a)); return r.value
            res = core.forked(body, timeout=20)
            if res[0] != 'ok' or (res[1] * x) % P != 1:
                return viol('inv', '%s; native: inv(%#x) -> %s, inv(a)·a = %s' % (text, x, res, (res[1] * x) % P if res[0] == 'ok' else 'n/a'), replay=dict(kind='inv-value', a=x))
    else:
        f = core.nfn(ctx.bdir, CFG, EXP)
        for b in cands[:12] + [2**64 - 2**31 + 1, 2**64 - 5]:
            for e in [0, 1, 2, 3, 5, 6, 7, 8, 12, 255, 2**32 + 5, 2**64 - 1] + [v % 2**64 for v in model.values()][:4]:
                def body(b=b, e=e):
                    r = ctypes.c_uint64(0); f(ctypes.byref(r), ctypes.c_uint64(b), ctypes.c_uint64(e)); return r.value
                res = core.forked(body, timeout=20)
                if res[0] != 'ok' or res[1] % P != pow(b, e, P): return viol('exp', '%s; native: exp(%#x, %d) -> %s, expected %d' % (text, b, e, res, pow(b, e, P)), replay=dict(kind='exp-value', b=b, e=e))
    return inconc('INDUCTIVE-STEP-FAILURE not reproduced by a concrete native call: ' + text)

def obligations(ctx):
    from . import C03
    return [Ob('inv/refusal', ob_inv_refusal), Ob('inv/entry', ob_inv_entry), Ob('inv/step', ob_inv_step), Ob('inv+div/wrappers', ob_inv_wrapper), Ob('exp', ob_exp)] + C03.contract_obs(ctx)

def validate(ctx):
    """concrete: native inv/exp vs interpreter vs python pow"""
    rng = ctx.rng('C10'); n = 0; bad = []
    w = core.world(ctx.bdir, MODS)
    fi = core.nfn(ctx.bdir, CFG, INV); fe = core.nfn(ctx.bdir, CFG, EXP)
    xs = [x for x in [1, 2, 3, P - 1, P + 1, 2**64 - 1, 2**32, 7] + [rng.getrandbits(64) for _ in range(6)] if x % P]
    es = [rng.getrandbits(rng.choice([1, 3, 8, 64])) for _ in xs]
    def nat():
        out = []
        for x, e in zip(xs, es):
            a = ctypes.c_uint64(x); r = ctypes.c_uint64(0); fi(ctypes.byref(r), ctypes.byref(a))
            r2 = ctypes.c_uint64(0); fe(ctypes.byref(r2), ctypes.c_uint64(x), ctypes.c_uint64(e)); out.append((r.value, r2.value))
        return out
    nres = core.forked(nat, timeout=60)
    if nres[0] != 'ok': return {'vectors': 0, 'mismatches': [], 'note': 'native inv/exp run ended with %s %s (left to the solver to report)' % nres}
    for (x, e, (rv, r2v)) in zip(xs, es, nres[1]):
        class _V: pass
        r = _V(); r.value = rv; r2 = _V(); r2.value = r2v
        w.reset(); w.hooks = dict(w.base_hooks); it = Interp(w); ro = Obj(8, 'r', 8); it.call(INV, [Ptr(ro, 0), Ptr(core.obj_words('a', [x], 8), 0)]); n += 1
        if ro.cells[0] != r.value: bad.append('inv(%#x): native %#x interpreter %#x' % (x, r.value, ro.cells[0]))
        w.reset(); w.hooks = dict(w.base_hooks); it = Interp(w); ro = Obj(8, 'r', 8)
        try: it.call(EXP, [Ptr(ro, 0), x, e]); n += 1
        except Violation: continue
        if ro.cells[0] != r2.value: bad.append('exp(%#x,%d): native %#x interpreter %#x' % (x, e, r2.value, ro.cells[0]))
    return {'vectors': n, 'mismatches': bad}

def replay(ctx, d):
    if d.get('kind') in ('exit', 'returns'):
        x = d['a']
        def body():
            f = core.nfn(ctx.bdir, CFG, INV); a = ctypes.c_uint64(x); r = ctypes.c_uint64(0); f(ctypes.byref(r), ctypes.byref(a)); return r.value
        res = core.forked(body)
        exited = res[0] == 'exit'
        return (exited != (x % P == 0)), 'inv(%#x): native run %s' % (x, res,)
    if d.get('kind') == 'inv-value':
        x = d['a']; f = core.nfn(ctx.bdir, CFG, INV)
        def body():
            a = ctypes.c_uint64(x); r = ctypes.c_uint64(0); f(ctypes.byref(r), ctypes.byref(a)); return r.value
        res = core.forked(body, timeout=20)
        return res[0] != 'ok' or (res[1] * x) % P != 1, 'inv(%#x) -> %s' % (x, res,)
    if d.get('kind') == 'exp-value':
        f = core.nfn(ctx.bdir, CFG, EXP)
        def body():
            r = ctypes.c_uint64(0); f(ctypes.byref(r), ctypes.c_uint64(d['b']), ctypes.c_uint64(d['e'])); return r.value
        res = core.forked(body, timeout=20)
        return res[0] != 'ok' or res[1] % P != pow(d['b'], d['e'], P), 'exp(%#x,%d) -> %s, expected %d' % (d['b'], d['e'], res, pow(d['b'], d['e'], P))
    return True, str(d)
