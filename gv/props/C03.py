# C03 — NTT computes the DFT for every size and configuration.
from . import ntt
from ..runner import Ob
META = dict(
    functions=['NTT_Goldilocks::NTT_Goldilocks (constructor, GMP calls on python integers)', 'NTT_Goldilocks::NTT', 'NTT_Goldilocks::NTT_iters', 'NTT_Goldilocks::reversePermutation', 'NTT_Goldilocks::root/log2/intt_idx', 'Goldilocks::parcpy', 'NTT_Goldilocks::~NTT_Goldilocks'],
    bounds={'quick': 'object domain 2^s, s <= 5; transform size n = 2^d, 0 <= d <= s (and size 0); ncols 0..3; nphase, nblock: ALL uint64 values (symbolic, classes proved exhaustive); dst in {other, src, NULL}; buffer in {NULL, caller}; all input matrices, any representation; plus n in {64,128,256} with concrete (nphase,nblock) in {(3,1),(2,1),(4,2)}',
            'thorough': 's <= 7 (n <= 128), ncols 0..4, otherwise as quick; large concrete-schedule classes up to n = 1024'},
    outside=['sizes above the bound', 'the parallel execution (C12 shows it equals the sequential semantics executed here)', 'nThreads: all of {1,2,3,4,default} for size-1 transforms (where parcpy delivers the result), rotated over {1,3,default,2} elsewhere'],
    stubs=['GMP on python integers (constructor)', 'malloc/free tracking'],
    assumptions=['field-level mode: input words are arbitrary residue classes (representation-independent by the contracts of Goldilocks::add/sub/mul, re-proved bit-precisely in this run)',
                 'a caller-provided scratch buffer has size*ncols elements'],
    trusted_base=['Z-lift: congruences of integer linear forms mod p decided by z3', 'W[d] checked to be a primitive 2^d-th root of unity by ground arithmetic'])
KIND = 'ntt'
def classes(ctx, kind=KIND):
    S = 7 if ctx.thorough else 5; C = 4 if ctx.thorough else 3
    out = []
    for s_ in range(0, S + 1):
        for d in [-1] + list(range(0, s_ + 1)):
            for ncols in range(0, C + 1):
                if (d == -1 or ncols == 0) and s_ > 1: continue
                for dstmode in ('other', 'same', 'null'):
                    for buf in (False, True):
                        if ctx.thorough is False and s_ == S and d < S - 1 and buf: continue
                        out.append((kind, s_, d, ncols, dstmode, buf))
    # wider column counts on small transforms: column blocks with a remainder of two or more columns need ncols >= 5
    for (s_, d) in ((1, 1), (2, 2), (2, 1)):
        for ncols in ((5, 7) if not ctx.thorough else (5, 6, 7, 8)):
            for dstmode in ('other', 'same'):
                for buf in (False, True): out.append((kind, s_, d, ncols, dstmode, buf))
    return out
def obligations(ctx, kind=KIND, prop='C03'):
    obs = []
    for i, (k, s_, d, ncols, dstmode, buf) in enumerate(classes(ctx, kind)):
        # nThreads enters the sequential semantics through parcpy (size-1 transforms) and chunk arithmetic: all of 1,2,3,4,default for n = 1, rotated elsewhere
        nts = (1, 2, 3, 4, 0) if (d == 0 and ncols > 1) else ((1, 3, 0, 2)[i % 4],)
        for nt in nts:
            obs.append(Ob('%s/s%d/d%d/c%d/%s/%s/t%d' % (k, s_, d, ncols, dstmode, 'buf' if buf else 'nobuf', nt), ntt.ob, (prop, k, s_, d, ncols, dstmode, buf), dict(nthreads=nt), weight=(1 << max(d, 0)) * max(ncols, 1)))
    # large transforms with concrete schedule parameters (default 3/1 and two others): widens the size range at low cost
    for d in ((6, 7, 8, 9, 10) if ctx.thorough else (6, 7, 8)):
        for sched in ((3, 1), (2, 1), (4, 2)):
            for ncols in ((1, 2) if sched != (4, 2) else (2,)):
                if d >= 9 and (ncols > 1 or sched != (3, 1)): continue
                obs.append(Ob('%s-large/n%d/c%d/nphase%d/nblock%d' % (kind, 1 << d, ncols, sched[0], sched[1]), ntt.ob, (prop, kind, d, d, ncols, 'other', False), dict(nthreads=(1, 3, 0, 2)[d % 4], sched=sched), weight=(1 << d) * ncols * 4))
    obs += contract_obs(ctx) + bitrev_obs(ctx)
    return obs
def contract_obs(ctx):
    from . import C01
    from .. import kern
    E = 'Goldilocks::Element'; obs = []
    for op in ('add', 'sub', 'mul'):
        fn = kern.sym(ctx, 'avx2', 'Goldilocks', op, 'void (%s &, const %s &, const %s &)' % (E, E, E))
        for al in ('distinct', 'out=a', 'out=b'):
            obs.append(Ob('contract/Goldilocks::%s/%s' % (op, al), C01.ob_op, (op, 'ref', fn, al)))
    return obs
def bitrev_obs(ctx): return [Ob('bitrev/all-widths', ntt.ob_bitrev, weight=3)]
def validate(ctx): return ntt.validate(ctx)
def replay(ctx, d): return ntt.replay(ctx, d)
