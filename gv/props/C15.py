# C15 — conversions are total, canonical, round-trip; predicates ignore representation.
import z3, ctypes, subprocess, os
from .. import core, smt, kern, bv2int
from ..interp import *
from ..runner import Ob, ok, viol, inconc
from ..kern import P, sym

CFG = 'avx2'; MODS = ['cen_avx2', 'gbf_avx2']
E = 'Goldilocks::Element'
META = dict(
    functions=['Goldilocks::fromU64/fromS64/fromS32 (both forms)', 'toU64 (both forms)', 'toS64 (both forms)', 'toS32', 'fromScalar (both forms)', 'fromString (both forms)', 'toString(string&, Element, radix)', 'equal', 'isZero', 'isOne', 'isNegone',
               'gmpxx expression templates (interpreted from the IR)'],
    bounds={'quick': 'none: all uint64 / int64 / int32 inputs, all mathematical integers Z for big-integer and string conversions, all element representations', 'thorough': 'same; cvc5 cross-check'},
    outside=['the digits GMP parses/prints (mpz_init_set_str yields an arbitrary integer Z or failure; mpz_get_str is checked to receive the canonical value and the caller\'s radix)', 'libstdc++ std::string internals (constructor/assign/destructor modelled as tagged moves)'],
    stubs=['GMP C entry points as integer contracts (see coverage.stubs of the engine)', 'std::string plumbing: c_str/ctor/assign/dtor'],
    assumptions=['mpz_get_si on a value that fits a signed long returns it (GMP manual); values that do not fit are not relied on'],
    trusted_base=['GMP manual contracts of mpz_add_ui, mpz_ui_sub, mpz_tdiv_r_ui (remainder has the sign of the dividend), mpz_get_ui, mpz_get_si, mpz_cmp'])

STR = 'NSt7__cxx1112basic_stringIcSt11char_traitsIcESaIcEE'
def string_stubs(w):
    H = w.hooks; w.strings = {}; w.getstr = []
    def key(p): return (p.obj.id, p.off)
    def get_str(it, a):
        buf = Obj(64, 'gmp_str#%d' % len(w.getstr), 8, 'heap'); buf.alloc = 'gmp'; w.heap[buf.id] = buf
        w.getstr.append((w.mpz_get(a[2]), a[1], buf)); buf.tag = ('getstr', len(w.getstr) - 1); return Ptr(buf, 0)
    H['@__gmpz_get_str'] = get_str
    def acs_ctor(it, a): w.store(a[0], Ty('ptr', to=I(8)), a[1])
    def acs_dtor(it, a):
        p = w.load(a[0], Ty('ptr', to=I(8)))
        if p.obj is not None and p.obj.id in w.heap: del w.heap[p.obj.id]; p.obj.freed_gmp = True
    H['@_ZN19__gmp_alloc_cstringC2EPc'] = acs_ctor; H['@_ZN19__gmp_alloc_cstringD2Ev'] = acs_dtor
    H['@_ZNSaIcEC2Ev'] = lambda it, a: None; H['@_ZNSaIcED2Ev'] = lambda it, a: None
    def s_from_cstr(it, a):
        src = a[1]
        if getattr(src.obj, 'freed_gmp', False): raise Violation('use-after-free', 'std::string built from a released GMP buffer')
        w.strings[key(a[0])] = getattr(src.obj, 'tag', ('bytes', src.obj.name))
    H['@_Z%sC2IS3_EEPKcRKS3_' % STR] = s_from_cstr
    H['@_Z%sC2Ev' % STR] = lambda it, a: w.strings.__setitem__(key(a[0]), ('empty',))
    H['@_Z%sD2Ev' % STR] = lambda it, a: None
    def s_move(it, a): w.strings[key(a[0])] = w.strings.get(key(a[1]), ('unknown',)); return a[0]
    H['@_Z%saSEOS4_' % STR] = s_move; H['@_Z%saSERKS4_' % STR] = s_move
    H['@_Z%sC2EOS4_' % STR] = s_move; H['@_Z%sC2ERKS4_' % STR] = s_move
    # formatting of the diagnostic in toS32's failure path: producers of throw-away strings
    def fmt(it, a): w.strings[key(a[0])] = ('diagnostic',); return None
    H['@_ZN10Goldilocks8toStringB5cxx11ERKNS_7ElementEi'] = fmt

def setup(ctx):
    w = core.world(ctx.bdir, MODS); w.hooks = dict(w.base_hooks); string_stubs(w); return w

def can(x): return z3.If(x >= P, x - P, x)
def centred(c): return z3.If(c > (P - 1) // 2, c - P, c)

def run_paths(ctx, fnname, mk):
    """explore fn; mk(w) -> (args, outs_fn). returns list of (pc, status, (ret, outs), events)"""
    w = setup(ctx); res = []
    def go(it):
        args, outs = mk(w); ret = it.call(fnname, args); return ret, outs(ret)
    BOUNDS.clear()
    for p in explore(w, go):
        res.append((p.pc, p.status, p.result))
        for e in p.events:
            if e[0] == 'bound': BOUNDS.add(e[1])
    return res
BOUNDS = set()     # bounds introduced by the stubs on the last run_paths (e.g. limb-wise access to a symbolic integer)

def decide(ctx, name, paths, goal, pre=(), replayer=None, expect_term=None):
    """goal(tr, ret, outs) -> formula; terminated paths are checked with expect_term(tr) -> formula describing when termination is allowed"""
    nq = 0; nfeas = 0
    for pc, st, res in paths:
        if smt.prove(lambda tr: z3.BoolVal(False), assumptions=list(pre) + list(pc), timeout=30).status == 'sat': nfeas += 1
        if st == 'ok':
            ret, outs = res
            r = smt.prove(lambda tr: goal(tr, ret, outs), assumptions=list(pre) + list(pc), timeout=60); nq += 1
        elif st == 'terminated' and expect_term is not None:
            r = smt.prove(lambda tr: expect_term(tr), assumptions=list(pre) + list(pc), timeout=60); nq += 1
        else:
            r = smt.prove(lambda tr: z3.BoolVal(False), assumptions=list(pre) + list(pc), timeout=60); nq += 1    # event paths must be infeasible
            if r.status == 'sat': r.info = 'path ends in %s' % (res,)
        if r.status == 'sat':
            if replayer:
                okr, text = replayer(r.model)
                if okr: return viol(name, text, replay=dict(kind=name, model=r.model))
                return inconc('ENCODING-MISMATCH: %s model %s does not reproduce natively (%s)' % (name, r.model, text))
            return viol(name, '%s: counterexample %s (%s)' % (name, r.model, r.info), replay=dict(kind=name, model=r.model))
        if r.status != 'unsat': return inconc('%s: %s' % (name, r.info))
    if nfeas == 0: return inconc('%s: vacuous, no path has satisfiable assumptions' % name)
    return ok('%d path(s) (%d feasible under the integer encoding), %d queries' % (len(paths), nfeas, nq), sample=dict(conversion=name, paths=len(paths)))

# ---------------------------------------------------------------- native helpers
def helper(ctx):
    """small native driver for conversions that need C++ objects (mpz_class, std::string); built once per build dir"""
    exe = os.path.join(ctx.bdir, 'conv_helper2')
    if not os.path.exists(exe):
        src = os.path.join(ctx.bdir, 'conv_helper.cpp')
        open(src, 'w').write(r'''
#include "goldilocks_base_field.hpp"
#include "goldilocks_cubic_extension.hpp"
#include <iostream>
#include <cstring>
int main(int argc, char** argv) {
  std::string k = argv[1];
  try {
    if (k == "fromString") { Goldilocks::Element e; Goldilocks::fromString(e, std::string(argv[2]), atoi(argv[3])); std::cout << e.fe << std::endl; }
    else if (k == "fromScalar") { mpz_class z(argv[2], atoi(argv[3])); Goldilocks::Element e; Goldilocks::fromScalar(e, z); std::cout << e.fe << std::endl; }
    else if (k == "toString") { Goldilocks::Element e; e.fe = strtoull(argv[2], 0, 10); std::cout << Goldilocks::toString(e, atoi(argv[3])) << std::endl; }
    else if (k == "mulScalar3") { Goldilocks3::Element a, r; for (int i = 0; i < 3; i++) a[i].fe = strtoull(argv[2 + i], 0, 10); std::string b(argv[5]); Goldilocks3::mulScalar(r, a, b); std::cout << r[0].fe << " " << r[1].fe << " " << r[2].fe << std::endl; }
    else if (k == "toS64") { Goldilocks::Element e; e.fe = strtoull(argv[2], 0, 10); std::cout << Goldilocks::toS64(e) << std::endl; }
    else if (k == "toS32") { Goldilocks::Element e; e.fe = strtoull(argv[2], 0, 10); int32_t r = 0; bool ok = Goldilocks::toS32(r, e); std::cout << (ok ? 1 : 0) << " " << r << std::endl; }
  } catch (std::exception& ex) { std::cout << "EXC " << ex.what() << std::endl; }
  return 0; }
''')
        subprocess.run(['g++', '-std=c++17', '-O2', '-mavx2', '-fopenmp', '-w', '-I' + os.path.join(os.environ.get('GV_REPO', '/repo'), 'src'), src, os.path.join(os.environ.get('GV_REPO', '/repo'), 'src', 'goldilocks_base_field.cpp'), os.path.join(os.environ.get('GV_REPO', '/repo'), 'src', 'goldilocks_cubic_extension.cpp'), '-lgmp', '-o', exe + '.tmp%d' % os.getpid()], check=True, stdout=subprocess.PIPE, stderr=subprocess.PIPE)
        os.replace(exe + '.tmp%d' % os.getpid(), exe)
    return exe
def hrun(ctx, *args):
    r = subprocess.run([helper(ctx)] + [str(a) for a in args], stdout=subprocess.PIPE, stderr=subprocess.DEVNULL, text=True, timeout=60)
    return r.stdout.strip()
def native_strings(ctx, which, why):
    """the symbolic argument relies on how the conversion hands its text to GMP; when the code is organised differently this is no verdict about
       the property: decide by concrete native calls (violation only if one misbehaves), otherwise inconclusive"""
    rng = ctx.rng('C15native' + which)
    zs = [0, 1, -1, 7, P - 1, P, P + 1, -P, -P - 1, 2**64 - 1, 2**64, 2**64 + 12345, -(2**64), 2**127 + 3, -(2**200) + 17, 3 * P, -3 * P + 1, 10**40 + 7] + [rng.getrandbits(rng.choice([16, 63, 64, 65, 130, 260])) * rng.choice([1, -1]) for _ in range(20)]
    if which in ('fromString', 'fromScalar'):
        for z in zs:
            for radix in (10, 16, 2, 36, 7):
                out = hrun(ctx, which, to_radix(z, radix), radix)
                if out != str(z % P): return viol(which, '%s; native %s("%s", %d) = %s, expected %d' % (why, which, to_radix(z, radix)[:60], radix, out, z % P), replay=dict(kind=which, Z=z, radix=radix))
    else:
        for x in [0, 1, P - 1, P, P + 1, 2**64 - 1, 2**32, 2**63] + [rng.getrandbits(64) for _ in range(12)]:
            for radix in (10, 16, 2, 36, 7):
                out = hrun(ctx, 'toString', x, radix)
                if out != to_radix(x % P, radix): return viol('toString', '%s; native toString(%#x, %d) = %s, canonical value %s' % (why, x, radix, out, to_radix(x % P, radix)), replay=dict(kind='toString', a=x, radix=radix))
    return inconc('%s; concrete native calls agree with the specification' % why)

def to_radix(z, radix):
    if z == 0: return '0'
    neg = z < 0; z = abs(z); d = ''
    while z: d = '0123456789abcdefghijklmnopqrstuvwxyz'[z % radix] + d; z //= radix
    return ('-' if neg else '') + d

# ---------------------------------------------------------------- obligations
def ob_from_int(ctx, name, form, bits, signed):
    """fromU64 / fromS64 / fromS32: out ≡ mathematical value of the argument"""
    ty = {('fromU64', 'val'): '%s (uint64_t)' % E, ('fromU64', 'ref'): 'void (%s &, uint64_t)' % E, ('fromS64', 'val'): '%s (int64_t)' % E, ('fromS64', 'ref'): 'void (%s &, int64_t)' % E,
          ('fromS32', 'val'): '%s (int32_t)' % E, ('fromS32', 'ref'): 'void (%s &, int32_t)' % E}[(name, form)]
    fn = sym(ctx, CFG, 'Goldilocks', name, ty); v = z3.BitVec('v', bits)
    def mk(w):
        if form == 'val': return [v], (lambda ret: [ret])
        o = Obj(8, 'r', 8); return [Ptr(o, 0), v], (lambda ret: [o.cells.get(0)])
    paths = run_paths(ctx, fn, mk)
    def goal(tr, ret, outs): return (tr.val(outs[0]) - (tr.sval(v) if signed else tr.val(v))) % P == 0
    def rp(m):
        x = m.get('v', 0); val = x - (1 << bits) if signed and x >> (bits - 1) else x
        f = core.nfn(ctx.bdir, CFG, fn, ctypes.c_uint64 if form == 'val' else None)
        ct = {64: (ctypes.c_int64 if signed else ctypes.c_uint64), 32: ctypes.c_int32}[bits]
        if form == 'val': got = f(ct(val))
        else: b = ctypes.c_uint64(0); f(ctypes.byref(b), ct(val)); got = b.value
        return got % P != val % P, 'Goldilocks::%s(%d) = %#x (= %d mod p), expected %d' % (name, val, got, got % P, val % P)
    return decide(ctx, '%s/%s' % (name, form), paths, goal, replayer=rp)

def ob_toU64(ctx, form):
    fn = sym(ctx, CFG, 'Goldilocks', 'toU64', 'uint64_t (const %s &)' % E if form == 'val' else 'void (uint64_t &, const %s &)' % E); a = core.bv64('a')
    def mk(w):
        oa = core.obj_words('a', [a], 8)
        if form == 'val': return [Ptr(oa, 0)], (lambda ret: [ret])
        o = Obj(8, 'r', 8); return [Ptr(o, 0), Ptr(oa, 0)], (lambda ret: [o.cells.get(0)])
    paths = run_paths(ctx, fn, mk)
    return decide(ctx, 'toU64/' + form, paths, lambda tr, ret, outs: z3.And(tr.val(outs[0]) == can(tr.val(a))))

def ob_pred(ctx, name):
    """equal / isZero / isOne / isNegone depend only on residue classes"""
    a = core.bv64('a'); b = core.bv64('b')
    if name == 'equal': fn = sym(ctx, CFG, 'Goldilocks', 'equal', 'bool (const %s &, const %s &)' % (E, E))
    else: fn = sym(ctx, CFG, 'Goldilocks', name, 'bool (const %s &)' % E)
    def mk(w):
        oa = core.obj_words('a', [a], 8); ob_ = core.obj_words('b', [b], 8)
        return ([Ptr(oa, 0), Ptr(ob_, 0)] if name == 'equal' else [Ptr(oa, 0)]), (lambda ret: [ret])
    paths = run_paths(ctx, fn, mk)
    def goal(tr, ret, outs):
        r = outs[0]; rb = z3.BoolVal(bool(r)) if is_c(r) else tr.bool(tobool(r) if (z3.is_bool(r) or r.size() == 1) else r != 0)
        A = tr.val(a); B = tr.val(b)
        spec = {'equal': (A - B) % P == 0, 'isZero': A % P == 0, 'isOne': (A - 1) % P == 0, 'isNegone': (A + 1) % P == 0}[name]
        return rb == spec
    return decide(ctx, name, paths, goal)

def ob_toS64(ctx, form):
    fn = sym(ctx, CFG, 'Goldilocks', 'toS64', 'int64_t (const %s &)' % E if form == 'val' else 'void (int64_t &, const %s &)' % E); a = core.bv64('a')
    def mk(w):
        oa = core.obj_words('a', [a], 8)
        if form == 'val': return [Ptr(oa, 0)], (lambda ret: [ret])
        o = Obj(8, 'r', 8); return [Ptr(o, 0), Ptr(oa, 0)], (lambda ret: [o.cells.get(0)])
    paths = run_paths(ctx, fn, mk)
    def rp(m):
        x = m.get('a', 0); out = hrun(ctx, 'toS64', x); c = x % P; exp = c - P if c > (P - 1) // 2 else c
        return out != str(exp), 'Goldilocks::toS64(%#x) = %s, centred value is %d' % (x, out, exp)
    return decide(ctx, 'toS64/' + form, paths, lambda tr, ret, outs: tr.sval(tobv(outs[0], 64)) == centred(can(tr.val(a))), replayer=rp)

def ob_toS32(ctx):
    fn = sym(ctx, CFG, 'Goldilocks', 'toS32', 'bool (int32_t &, const %s &)' % E); a = core.bv64('a')
    def mk(w):
        oa = core.obj_words('a', [a], 8); o = Obj(8, 'r', 8); o.cells[0] = z3.BitVec('r_init', 64)
        return [Ptr(o, 0), Ptr(oa, 0)], (lambda ret: [ret, o.cells.get(0)])
    paths = run_paths(ctx, fn, mk)
    def goal(tr, ret, outs):
        okv, word = outs; c = centred(can(tr.val(a))); inr = z3.And(c >= -2**31, c < 2**31)
        okb = z3.BoolVal(bool(okv)) if is_c(okv) else tr.bool(tobool(okv) if (z3.is_bool(okv) or okv.size() == 1) else okv != 0)
        r32 = tr.sval(z3.Extract(31, 0, tobv(word, 64)))
        return z3.And(okb == inr, z3.Implies(inr, r32 == c))
    def rp(m):
        x = m.get('a', 0); out = hrun(ctx, 'toS32', x).split(); c = x % P; cen = c - P if c > (P - 1) // 2 else c; inr = -2**31 <= cen < 2**31
        bad = (out[0] == '1') != inr or (inr and int(out[1]) != cen)
        return bad, 'Goldilocks::toS32(%#x) returns %s with value %s; centred value %d is %sin [-2^31, 2^31)' % (x, 'true' if out[0] == '1' else 'false', out[1], cen, '' if inr else 'not ')
    return decide(ctx, 'toS32', paths, goal, replayer=rp)

def ob_fromScalar(ctx, form):
    fn = sym(ctx, CFG, 'Goldilocks', 'fromScalar', '%s (const mpz_class &)' % E if form == 'val' else 'void (%s &, const mpz_class &)' % E); Z = z3.Int('Z')
    def mk(w):
        mp = Obj(16, 'mpz', 8); w.mpz_set(Ptr(mp, 0), Z)
        if form == 'val': return [Ptr(mp, 0)], (lambda ret: [ret])
        o = Obj(8, 'r', 8); return [Ptr(o, 0), Ptr(mp, 0)], (lambda ret: [o.cells.get(0)])
    paths = run_paths(ctx, fn, mk)
    return decide_Z(ctx, 'fromScalar/' + form, paths, Z, 'fromScalar')

def decide_Z(ctx, name, paths, Z, kind, radix=10):
    def goal(tr, ret, outs): o = tr.val(tobv(outs[0], 64)); return z3.And((o - Z) % P == 0, o < P)
    for pc, st, res in paths:
        if st != 'ok':
            return viol(name + '/event', '%s: path ends in %s' % (name, res), replay=dict(event=str(res)))
        ret, outs = res
        r = smt.prove(lambda tr: goal(tr, ret, outs), assumptions=list(pc), timeout=60)
        if r.status == 'sat':
            # Z is an Int variable (not in tr.vars): recover the witness with a direct query
            tr = smt.T(); s = z3.Solver(); s.add(tr.side if False else []); g = goal(tr, ret, outs); s.add(tr.side); s.add([tr.bool(c) for c in pc]); s.add(z3.Not(g))
            if s.check() != z3.sat: return inconc('witness recovery failed')
            zv = s.model().eval(Z, model_completion=True).as_long()
            okr, text = replay(ctx, dict(kind=kind, Z=zv, radix=radix))
            if okr: return viol(kind, text, replay=dict(kind=kind, Z=zv, radix=radix))
            return inconc('ENCODING-MISMATCH: %s witness Z=%d does not reproduce (%s)' % (kind, zv, text))
        if r.status != 'unsat': return inconc(r.info)
    if BOUNDS: return ok('%d path(s): out ≡ Z (mod p) and out < p for every integer Z within the bound: %s' % (len(paths), '; '.join(sorted(BOUNDS))), sample=dict(conversion=name, paths=len(paths), bound=sorted(BOUNDS)))
    return ok('%d path(s): out ≡ Z (mod p) and out < p for every integer Z' % len(paths), sample=dict(conversion=name, paths=len(paths)))

def mkstring(w, text='12'):
    data = text.encode() + b'\0'; chars = Obj(len(data), 'chars', 8)
    for i, b in enumerate(data): w.store_bytes(Ptr(chars, i), 1, [b])
    s = Obj(32, 'string', 8); s.cells[0] = Ptr(chars, 0); s.cells[1] = len(text); s.cells[2] = 0; s.cells[3] = 0
    w.strings[(s.id, 0)] = ('input',); return s

def ob_fromString(ctx, form):
    fn = sym(ctx, CFG, 'Goldilocks', 'fromString', '%s (const std::string &, int)' % E if form == 'val' else 'void (%s &, const std::string &, int)' % E)
    Z = z3.Int('Z'); radix = z3.BitVec('radix', 32); seen = {}
    def mk(w):
        s = mkstring(w)
        def set_str(it, a):
            # mpz_init_set_str(rop, str, base): parses the caller's string in the caller's radix -> arbitrary integer Z (0) or failure (-1)
            seen['str'] = a[1]; seen['base'] = a[2]; seen['sobj'] = s
            okp = it.branch(z3.Bool('parse_ok'))
            w.mpz_set(a[0], Z if okp else 0); return 0 if okp else mask(32)
        w.hooks['@__gmpz_init_set_str'] = set_str
        if form == 'val': return [Ptr(s, 0), radix], (lambda ret: [ret])
        o = Obj(8, 'r', 8); return [Ptr(o, 0), Ptr(s, 0), radix], (lambda ret: [o.cells.get(0)])
    paths = run_paths(ctx, fn, mk)
    okp = [p for p in paths if not (p[1] == 'terminated' and getattr(p[2], 'kind', '') == 'throw')]
    thrown = len(paths) - len(okp)
    # the string handed to GMP must be the caller's characters and the caller's radix
    if not (isinstance(seen.get('str'), Ptr) and seen['str'].obj is seen['sobj'].cells[0].obj and seen['str'].off == 0): return native_strings(ctx, 'fromString', 'mpz_init_set_str is not handed the caller\'s string object directly')
    if not (z3.is_expr(seen['base']) and z3.eq(seen['base'], radix)): return native_strings(ctx, 'fromString', 'mpz_init_set_str is not handed the caller\'s radix directly')
    r = decide_Z(ctx, 'fromString/' + form, okp, Z, 'fromString')
    if r['status'] == 'proved': r['detail'] += '; %d failure path(s) raise the documented exception' % thrown
    return r

def ob_toString(ctx):
    fn = sym(ctx, CFG, 'Goldilocks', 'toString', 'void (std::string &, const %s &, int)' % E); a = core.bv64('a'); radix = z3.BitVec('radix', 32)
    w = setup(ctx)
    # decimal fast paths: std::to_string(value) produces the decimal text of its argument
    def to_string(it, args): w.strings[(args[0].obj.id, args[0].off)] = ('decimal', args[1]); return None
    for nm in ('@_ZNSt7__cxx119to_stringEm', '@_ZNSt7__cxx119to_stringEy', '@_ZNSt7__cxx119to_stringEl', '@_ZNSt7__cxx119to_stringEx'): w.hooks[nm] = to_string
    def go(it):
        res = Obj(32, 'result', 8); w.strings[(res.id, 0)] = ('empty',); oa = core.obj_words('a', [a], 8)
        it.call(fn, [Ptr(res, 0), Ptr(oa, 0), radix])
        return w.strings.get((res.id, 0)), list(w.getstr), dict(w.heap)
    try: paths = explore(w, go, max_paths=32)
    except Unsupported as e: return native_strings(ctx, 'toString', 'toString is organised in a way the string model does not follow (%s)' % str(e)[:100])
    n = 0
    for p_ in paths:
        if p_.status != 'ok': return viol('toString/event', 'toString: %s' % p_.result, replay=dict(event=str(p_.result)))
        tag, getstr, heap = p_.result
        if tag and tag[0] == 'getstr':
            v, base, buf = getstr[tag[1]]
            if not (z3.is_expr(base) and z3.eq(base, radix)): return native_strings(ctx, 'toString', 'mpz_get_str is not handed the caller\'s radix directly')
            goal = lambda tr, v=v: tr.int(v) == can(tr.val(a)) if not isinstance(v, int) else z3.BoolVal(False)
        elif tag and tag[0] == 'decimal':
            v = tag[1]
            goal = lambda tr, v=v: z3.And(tr.val(tobv(v, 64)) == can(tr.val(a)), tr.val(radix) == 10)
        else: return native_strings(ctx, 'toString', 'the result string is not the text of mpz_get_str / std::to_string (%s)' % (tag,))
        r = smt.prove(goal, assumptions=list(p_.pc), timeout=60); n += 1
        if r.status == 'sat':
            x = r.model.get('a', 0); rd = r.model.get('radix', 10); rd = rd if 2 <= rd <= 36 else 10; out = hrun(ctx, 'toString', x, rd)
            if out != to_radix(x % P, rd): return viol('toString', 'toString(%#x, %d) = %s, canonical value %s' % (x, rd, out, to_radix(x % P, rd)), replay=dict(kind='toString', a=x, radix=rd))
            return inconc('ENCODING-MISMATCH toString %#x' % x)
        if r.status != 'unsat': return inconc(r.info)
    return ok('%d path(s): the text producer (mpz_get_str with the caller\'s radix, or std::to_string when the radix is 10) receives can(a)' % n, sample=dict(conversion='toString', paths=n))

def ob_roundtrip(ctx, which):
    """integer -> field -> integer is the identity on the range of the outward conversion"""
    if which == 'u64':
        f1 = sym(ctx, CFG, 'Goldilocks', 'fromU64', '%s (uint64_t)' % E); f2 = sym(ctx, CFG, 'Goldilocks', 'toU64', 'uint64_t (const %s &)' % E); v = z3.BitVec('v', 64)
        pre = [lambda tr: tr.val(v) < P]; chk = lambda tr, out: tr.val(tobv(out, 64)) == tr.val(v)
    elif which == 's64':
        f1 = sym(ctx, CFG, 'Goldilocks', 'fromS64', '%s (int64_t)' % E); f2 = sym(ctx, CFG, 'Goldilocks', 'toS64', 'int64_t (const %s &)' % E); v = z3.BitVec('v', 64)
        pre = [lambda tr: z3.And(tr.sval(v) <= (P - 1) // 2, tr.sval(v) >= -((P - 1) // 2))]; chk = lambda tr, out: tr.sval(tobv(out, 64)) == tr.sval(v)
    else:
        f1 = sym(ctx, CFG, 'Goldilocks', 'fromS32', '%s (int32_t)' % E); f2 = sym(ctx, CFG, 'Goldilocks', 'toS32', 'bool (int32_t &, const %s &)' % E); v = z3.BitVec('v', 32)
        pre = []; chk = None
    w = setup(ctx); res = []
    def go(it):
        e = it.call(f1, [v]); oe = core.obj_words('e', [e], 8)
        if which == 's32':
            o = Obj(8, 'r', 8); o.cells[0] = z3.BitVec('r_init', 64); okv = it.call(f2, [Ptr(o, 0), Ptr(oe, 0)]); return okv, o.cells[0]
        return it.call(f2, [Ptr(oe, 0)])
    paths = [(p.pc, p.status, p.result) for p in explore(w, go)]
    def goal(tr, ret, outs):
        if which != 's32': return chk(tr, ret)
        okv, word = ret
        okb = z3.BoolVal(bool(okv)) if is_c(okv) else tr.bool(tobool(okv) if (z3.is_bool(okv) or okv.size() == 1) else okv != 0)
        return z3.And(okb, tr.sval(z3.Extract(31, 0, tobv(word, 64))) == tr.sval(v))
    paths2 = [(pc, st, (r, None)) for pc, st, r in paths]
    def rp(m):
        x = m.get('v', 0)
        if which == 's32':
            val = x - 2**32 if x >> 31 else x; out = hrun(ctx, 'toS32', val % P).split()
            return out[0] != '1' or int(out[1]) != val, 'toS32(fromS32(%d)) returns %s with value %s' % (val, 'true' if out[0] == '1' else 'false', out[1])
        if which == 's64':
            val = x - 2**64 if x >> 63 else x; out = hrun(ctx, 'toS64', val % 2**64 if val >= 0 else (val + P) % 2**64)
            return out != str(val), 'toS64(fromS64(%d)) = %s' % (val, out)
        return False, 'u64'
    return decide(ctx, 'roundtrip/' + which, paths2, goal, pre=pre, replayer=rp)

def obligations(ctx):
    obs = []
    for name, bits, sg in (('fromU64', 64, False), ('fromS64', 64, True), ('fromS32', 32, True)):
        for form in ('val', 'ref'): obs.append(Ob('%s/%s' % (name, form), ob_from_int, (name, form, bits, sg)))
    for form in ('val', 'ref'):
        obs.append(Ob('toU64/' + form, ob_toU64, (form,))); obs.append(Ob('toS64/' + form, ob_toS64, (form,)))
        obs.append(Ob('fromScalar/' + form, ob_fromScalar, (form,))); obs.append(Ob('fromString/' + form, ob_fromString, (form,)))
    obs.append(Ob('toS32', ob_toS32)); obs.append(Ob('toString', ob_toString))
    for n in ('equal', 'isZero', 'isOne', 'isNegone'): obs.append(Ob('pred/' + n, ob_pred, (n,)))
    for wch in ('u64', 's64', 's32'): obs.append(Ob('roundtrip/' + wch, ob_roundtrip, (wch,)))
    return obs

def validate(ctx):
    """concrete vectors: native helper vs interpreter (GMP stubs on python integers) vs definition"""
    n = 0; bad = []
    V = [0, 1, P - 1, P, P + 1, 2**63, 2**64 - 1, (P - 1) // 2, (P - 1) // 2 + 1, 2**31 - 1, 2**31, P - 2**31, P - 2**31 - 1, P - 2**31 + 1, 12345678901234567]
    f64 = sym(ctx, CFG, 'Goldilocks', 'toS64', 'int64_t (const %s &)' % E); f32 = sym(ctx, CFG, 'Goldilocks', 'toS32', 'bool (int32_t &, const %s &)' % E)
    fsc = sym(ctx, CFG, 'Goldilocks', 'fromScalar', '%s (const mpz_class &)' % E)
    for x in V:
        w = setup(ctx); w.reset(); w.hooks = dict(w.base_hooks); string_stubs(w); it = Interp(w)
        got = it.call(f64, [Ptr(core.obj_words('a', [x], 8), 0)]); nat = hrun(ctx, 'toS64', x); n += 1
        gs = got - 2**64 if got >> 63 else got
        if str(gs) != nat: bad.append('toS64(%#x): native %s interpreter %s' % (x, nat, gs))
        w.reset(); w.hooks = dict(w.base_hooks); string_stubs(w); it = Interp(w); o = core.obj_words('r', [0], 8)
        try: okv = it.call(f32, [Ptr(o, 0), Ptr(core.obj_words('a', [x], 8), 0)])
        except Exception as e: bad.append('toS32(%#x) interpreter: %s' % (x, e)); continue
        nat = hrun(ctx, 'toS32', x).split(); n += 1
        r32 = o.cells[0] & 0xFFFFFFFF; r32 = r32 - 2**32 if r32 >> 31 else r32
        if (nat[0] == '1') != bool(okv) or (okv and int(nat[1]) != r32): bad.append('toS32(%#x): native %s interpreter %s %s' % (x, nat, okv, r32))
    for z in [0, 1, -1, P, -P, P + 5, -P - 1, 2**64, -2**64 - 7, 2**200 + 3, -(2**130)]:
        w = setup(ctx); w.reset(); w.hooks = dict(w.base_hooks); string_stubs(w); it = Interp(w)
        mp = Obj(16, 'mpz', 8); w.mpz_set(Ptr(mp, 0), z); got = it.call(fsc, [Ptr(mp, 0)]); nat = hrun(ctx, 'fromScalar', z, 10); n += 1
        if str(got) != nat: bad.append('fromScalar(%d): native %s interpreter %s' % (z, nat, got))
    return {'vectors': n, 'mismatches': bad}

def replay(ctx, d):
    if 'event' in d: return True, str(d['event'])
    k = d['kind']
    if k in ('fromString', 'fromScalar'):
        z = d['Z']; radix = d.get('radix', 10); out = hrun(ctx, k, to_radix(z, radix), radix)
        return out != str(z % P), 'Goldilocks::%s("%s", radix %d) = %s, the residue of the integer mod p is %d' % (k, to_radix(z, radix), radix, out, z % P)
    if k == 'toString':
        rd = d.get('radix', 10); out = hrun(ctx, 'toString', d['a'], rd); return out != to_radix(d['a'] % P, rd), 'toString(%d, %d) = %s' % (d['a'], rd, out)
    m = d.get('model', {})
    if k.startswith('toS32') or k == 'roundtrip/s32':
        x = m.get('a', None)
        if x is None: v = m.get('v', 0); v = v - 2**32 if v >> 31 else v; x = v % P
        out = hrun(ctx, 'toS32', x).split(); c = x % P; cen = c - P if c > (P - 1) // 2 else c; inr = -2**31 <= cen < 2**31
        return (out[0] == '1') != inr or (inr and int(out[1]) != cen), 'toS32(%#x) -> %s (centred value %d)' % (x, out, cen)
    if k.startswith('toS64'):
        x = m.get('a', 0); out = hrun(ctx, 'toS64', x); c = x % P; exp = c - P if c > (P - 1) // 2 else c; return out != str(exp), 'toS64(%#x) = %s expected %d' % (x, out, exp)
    return True, 'replay data: %s' % d
