# Shared machinery for C02 (AVX2, 4 lanes) and C11 (AVX512, 8 lanes): bit-precise per-lane kernel obligations.
import z3, ctypes
from .. import core, smt, kern
from ..interp import *
from ..runner import Ob, ok, viol, inconc
from ..kern import P, sym

M64 = 2**64
SMALL = 0xFFFFFFFF00000000

class Z:   # z3 side of the dual spec algebra
    def __init__(s, tr, ins, outs): s.tr = tr; s.ins = ins; s.outs = outs
    def v(s, name): return s.tr.val(s.ins[name])
    def o(s, i): return s.tr.val(s.outs[i])
    def mul(s, n1, n2): return s.tr.prod(s.ins[n1], s.ins[n2])[0]
    ite = staticmethod(lambda c, a, b: z3.If(c, a, b)); And = staticmethod(lambda *a: z3.And(*a))
class Py:  # python-int side
    def __init__(s, ins, outs): s.ins = ins; s.outs = outs
    def v(s, name): return s.ins[name]
    def o(s, i): return s.outs[i]
    def mul(s, n1, n2): return s.ins[n1] * s.ins[n2]
    ite = staticmethod(lambda c, a, b: a if c else b); And = staticmethod(lambda *a: all(a))

def unshift(X, x): return X.ite(x >= 2**63, x - 2**63, x + 2**63)
def cong(x, y): return (x - y) % P == 0

# kernel table: name -> dict(args=[roles], inputs={name: kind}, pre, goal). roles: 'o' output vector, input names otherwise.
# kinds: 'w' plain 64-bit word, 'l' 64-bit word as two 32-bit limbs, 'b8' 8-bit value zero-extended
def table(v512):
    sfx = '_avx512' if v512 else '_avx'
    T = {}
    def K(name, args, inputs, goal, pre=None, doc=''):
        T[name] = dict(args=args, inputs=inputs, goal=goal, pre=pre, doc=doc)
    K('toCanonical' + sfx, ['o', 'a'], {'a': 'w'}, lambda X: X.And(cong(X.o(0), X.v('a')), X.o(0) < P), doc='canonical representative')
    K('add' + sfx, ['o', 'a', 'b'], {'a': 'w', 'b': 'w'}, lambda X: cong(X.o(0), X.v('a') + X.v('b')))
    K('sub' + sfx, ['o', 'a', 'b'], {'a': 'w', 'b': 'w'}, lambda X: cong(X.o(0), X.v('a') - X.v('b')))
    K('mult' + sfx, ['o', 'a', 'b'], {'a': 'l', 'b': 'l'}, lambda X: cong(X.o(0), X.mul('a', 'b')))
    K('mult' + sfx + '_8', ['o', 'a', 'b'], {'a': 'l', 'b': 'b8'}, lambda X: cong(X.o(0), X.mul('a', 'b')), doc='multiplier < 2^8')
    K('mult' + sfx + '_128', ['o', 'o', 'a', 'b'], {'a': 'l', 'b': 'l'}, lambda X: X.o(0) * M64 + X.o(1) == X.mul('a', 'b'))
    K('mult' + sfx + '_72', ['o', 'o', 'a', 'b'], {'a': 'l', 'b': 'b8'}, lambda X: X.And(X.o(0) * M64 + X.o(1) == X.mul('a', 'b'), X.o(0) < 2**32), doc='multiplier < 2^8')
    K('reduce' + sfx + '_128_64', ['o', 'h', 'l'], {'h': 'l', 'l': 'w'}, lambda X: cong(X.o(0), X.v('h') * M64 + X.v('l')))
    K('reduce' + sfx + '_96_64', ['o', 'h', 'l'], {'h': 'l', 'l': 'w'}, lambda X: cong(X.o(0), X.v('h') * M64 + X.v('l')), pre=lambda X: X.v('h') < 2**32, doc='c_h < 2^32')
    K('square' + sfx, ['o', 'a'], {'a': 'l'}, lambda X: cong(X.o(0), X.mul('a', 'a')))
    K('square' + sfx + '_128', ['o', 'o', 'a'], {'a': 'l'}, lambda X: X.o(0) * M64 + X.o(1) == X.mul('a', 'a'))
    if v512:
        K('add_avx512_b_c', ['o', 'a', 'b'], {'a': 'w', 'b': 'w'}, lambda X: cong(X.o(0), X.v('a') + X.v('b')), pre=lambda X: X.v('b') < P, doc='second operand canonical')
        K('sub_avx512_b_c', ['o', 'a', 'b'], {'a': 'w', 'b': 'w'}, lambda X: cong(X.o(0), X.v('a') - X.v('b')), pre=lambda X: X.v('b') < P, doc='second operand canonical')
    else:
        K('shift_avx', ['o', 'a'], {'a': 'w'}, lambda X: X.o(0) == unshift(X, X.v('a')))
        K('toCanonical_avx_s', ['o', 'a'], {'a': 'w'}, lambda X: X.And(cong(unshift(X, X.o(0)), unshift(X, X.v('a'))), unshift(X, X.o(0)) < P), doc='shifted in, shifted canonical out')
        K('add_avx_a_sc', ['o', 'a', 'b'], {'a': 'w', 'b': 'w'}, lambda X: cong(X.o(0), unshift(X, X.v('a')) + X.v('b')), pre=lambda X: unshift(X, X.v('a')) < P, doc='first operand shifted canonical')
        K('add_avx_s_b_small', ['o', 'a', 'b'], {'a': 'w', 'b': 'w'}, lambda X: cong(unshift(X, X.o(0)), unshift(X, X.v('a')) + X.v('b')), pre=lambda X: X.v('b') <= SMALL, doc='shifted first operand, b <= 0xFFFFFFFF00000000, shifted result')
        K('add_avx_b_small', ['o', 'a', 'b'], {'a': 'w', 'b': 'w'}, lambda X: cong(X.o(0), X.v('a') + X.v('b')), pre=lambda X: X.v('b') <= SMALL, doc='b <= 0xFFFFFFFF00000000')
        K('sub_avx_s_b_small', ['o', 'a', 'b'], {'a': 'w', 'b': 'w'}, lambda X: cong(unshift(X, X.o(0)), unshift(X, X.v('a')) - X.v('b')), pre=lambda X: X.v('b') <= SMALL, doc='shifted first operand, b <= 0xFFFFFFFF00000000, shifted result')
    return T

def vecty(n): return 'const __m%di &' % (64 * n), '__m%di &' % (64 * n)

def find(ctx, cfg, name, spec, n):
    cands = [m for m in kern.census(ctx, cfg) if m['cls'] == 'Goldilocks' and m['name'] == name and len(m['params']) == len(spec['args'])
             and all(('__m%di' % (64 * n)) in p[1] and '*' not in p[1] for p in m['params'])]
    if len(cands) != 1: raise Unsupported('kernel %s: %d candidates' % (name, len(cands)))
    return '@' + cands[0]['mangled']

def mkinput(kind, nm):
    if kind == 'w': return core.bv64(nm)
    if kind == 'l': return core.limb64(nm)
    if kind == 'b8': return z3.ZeroExt(56, z3.BitVec(nm, 8))
def inval(kind, nm, model):
    if kind == 'l': return (model.get(nm + 'h', 0) << 32) | model.get(nm + 'l', 0)
    return model.get(nm, 0)

def native_run(ctx, cfg, fn, spec, n, lanes_in, alias=None):
    """lanes_in: {name: [n ints]} -> list of output vectors.  alias = (output index, input name): that output register IS the input register"""
    bufs = []; outs = []; inb = {}
    for r in spec['args']:
        if r != 'o': inb[r] = kern.u64buf(lanes_in[r])
    for r in spec['args']:
        if r == 'o':
            b = inb[alias[1]] if (alias and alias[0] == len(outs)) else kern.u64buf([0] * n); outs.append(b)
        else: b = inb[r]
        bufs.append(b)
    f = core.nfn(ctx.bdir, cfg, fn)
    if f is None: return None
    f(*[ctypes.byref(b) for b in bufs])
    return [list(o) for o in outs]

def ob_kernel(ctx, cfg, mods, name, spec, n, alias=None):
    fn = find(ctx, cfg, name, spec, n)
    ins = {nm: [mkinput(k, '%s%d' % (nm, i)) for i in range(n)] for nm, k in spec['inputs'].items()}
    ALIAS[0] = alias
    def mk(w):
        objs = []; outs = []; ino = {r: core.obj_words(r, list(ins[r]), 8 * n) for r in spec['args'] if r != 'o'}
        for r in spec['args']:
            if r == 'o':
                o = ino[alias[1]] if (alias and alias[0] == len(outs)) else Obj(8 * n, 'out%d' % len(outs), 8 * n); outs.append(o)
            else: o = ino[r]
            objs.append(o)
        return [Ptr(o, 0) for o in objs], (lambda ret: [core.words(o) for o in outs])
    paths = kern.run_kernel(ctx, cfg, mods, fn, mk)
    def lane_ins(i): return {nm: ins[nm][i] for nm in ins}
    def goal(tr, ret, outs): return [('lane%d' % i, spec['goal'](Z(tr, lane_ins(i), [o[i] for o in outs]))) for i in range(n)]
    pre = []
    if spec['pre']:
        for i in range(n): pre.append((lambda i: (lambda tr: spec['pre'](Z(tr, lane_ins(i), None))))(i))
    r = kern.prove_paths(ctx, paths, goal, pre=pre)
    if r[0] == 'unsat':
        # vacuity: the precondition must be satisfiable
        if spec['pre']:
            wq = smt.prove(lambda tr: z3.BoolVal(False), assumptions=pre, timeout=20)
            if wq.status != 'sat': return inconc('vacuous: precondition not shown satisfiable (%s)' % wq.status)
        return ok('%d lanes, %d path(s); %s' % (n, len(paths), r[1]), sample={'kernel': name, 'lanes': n, 'assumption': spec['doc'] or 'none', 'fn': fn})
    if r[0] == 'sat':
        m = r[1]
        lanes = {nm: [inval(k, '%s%d' % (nm, i), m) for i in range(n)] for nm, k in spec['inputs'].items()}
        return confirm(ctx, cfg, name, fn, spec, n, lanes, r[2])
    if r[0] == 'event': return viol('%s/%s' % (name, getattr(r[2], 'kind', 'event')), 'path ends in %s: %s' % (r[1], r[2]), replay=dict(kernel=name, event=str(r[2])))
    return inconc(str(r[1]))

ALIAS = [None]
def confirm(ctx, cfg, name, fn, spec, n, lanes, label, alias='current'):
    alias = ALIAS[0] if alias == 'current' else alias
    outs = native_run(ctx, cfg, fn, spec, n, lanes, alias)
    if outs is None:   # no AVX512 on this CPU: replay in the interpreter's concrete mode
        outs = interp_run(ctx, cfg, fn, spec, n, lanes, alias=alias); how = 'interpreter (no native AVX512)'
    else: how = 'native'
    badl = [i for i in range(n) if (not spec['pre'] or spec['pre'](Py({k: v[i] for k, v in lanes.items()}, None))) and not spec['goal'](Py({k: v[i] for k, v in lanes.items()}, [o[i] for o in outs]))]
    rep = dict(kernel=name, cfg=cfg, fn=fn, n=n, lanes=lanes, outs=outs, how=how, alias=list(alias) if alias else None)
    if alias: name = '%s [output %d is operand %s]' % (name, alias[0], alias[1])
    if badl:
        i = badl[0]
        return viol(name, 'Goldilocks::%s lane %d: inputs %s -> outputs %s (%s) violate the lane specification%s' % (name, i, {k: hex(v[i]) for k, v in lanes.items()}, [hex(o[i]) for o in outs], how, (' [assumption: %s]' % spec['doc']) if spec['doc'] else ''), replay=rep)
    return inconc('ENCODING-MISMATCH: solver model for %s %s does not reproduce (%s): %s' % (name, label, how, lanes))

def interp_run(ctx, cfg, fn, spec, n, lanes, mods=None, alias=None):
    mods = mods or MODS[cfg]
    w = core.world(ctx.bdir, mods); w.reset(); w.hooks = dict(w.base_hooks); it = Interp(w)
    objs = []; outs = []; ino = {r: core.obj_words(r, list(lanes[r]), 8 * n) for r in spec['args'] if r != 'o'}
    for r in spec['args']:
        if r == 'o':
            o = ino[alias[1]] if (alias and alias[0] == len(outs)) else Obj(8 * n, 'out', 8 * n); outs.append(o)
        else: o = ino[r]
        objs.append(o)
    it.call(fn, [Ptr(o, 0) for o in objs])
    return [core.words(o) for o in outs]

MODS = {'avx2': ['cen_avx2', 'gbf_avx2'], 'avx512': ['cen_avx512', 'gbf_avx512']}

def obligations(ctx, cfg, n):
    T = table(n == 8); obs = []
    for name, spec in T.items():
        obs.append(Ob(name, ob_kernel, (cfg, MODS[cfg], name, spec, n)))
        # in-place uses: an output register that is also an operand register (add_avx(x, x, y), mult_avx_128(h, l, h, b), ...)
        nout = sum(1 for r in spec['args'] if r == 'o')
        for oi in range(nout):
            for inm in spec['inputs']:
                obs.append(Ob('%s/out%d=%s' % (name, oi, inm), ob_kernel, (cfg, MODS[cfg], name, spec, n, (oi, inm))))
    return obs

VEC = [0, 1, 3, 9, 255, 256, P - 12, P - 1, P, P + 1, 2**32 - 1, 2**32, 2**63 - 1, 2**63, SMALL, SMALL + 1, 2**64 - 1, 0x5555555555555555, 2**31, 2**33 - 1]
def validate(ctx, cfg, n):
    rng = ctx.rng('lanes' + cfg); T = table(n == 8); cnt = 0; bad = []
    for name, spec in T.items():
        fn = find(ctx, cfg, name, spec, n)
        for rep in range(6):
            lanes = {}
            for nm, k in spec['inputs'].items():
                if k == 'b8': lanes[nm] = [rng.choice([0, 1, 2, 255, rng.getrandbits(8)]) for _ in range(n)]
                else: lanes[nm] = [rng.choice(VEC) if rng.random() < 0.7 else rng.getrandbits(64) for _ in range(n)]
            nat = native_run(ctx, cfg, fn, spec, n, lanes)
            itp = interp_run(ctx, cfg, fn, spec, n, lanes); cnt += n
            if nat is not None and nat != itp: bad.append('%s: native %s interpreter %s on %s' % (name, nat, itp, lanes))
    return {'vectors': cnt, 'mismatches': bad}

def replay(ctx, d):
    if 'event' in d: return True, d['event']
    n = d['n']; T = table(n == 8); spec = T[d['kernel']]; lanes = {k: list(v) for k, v in d['lanes'].items()}
    r = confirm(ctx, d['cfg'], d['kernel'], d['fn'], spec, n, lanes, 'replay', alias=tuple(d['alias']) if d.get('alias') else None)
    return r['status'] == 'violation', r['detail']
