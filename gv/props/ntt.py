# Shared machinery for C03 (NTT), C04 (INTT), C05 (extendPol), C19 (object reuse): field-level symbolic execution of the real
# constructor / NTT / INTT / NTT_iters / reversePermutation / extendPol / computeR / destructor, schedule parameters symbolic.
import z3, ctypes, itertools, re
from .. import core, smt, kern, fmode
from ..interp import *
from ..runner import Ob, ok, viol, inconc
from ..kern import P

MODS = ['ntt_avx2', 'gbf_avx2']
CT = '@_ZN14NTT_GoldilocksC2Emji'; NTT = '@_ZN14NTT_Goldilocks3NTTEPN10Goldilocks7ElementES2_mmS2_mmbb'; DT = '@_ZN14NTT_GoldilocksD2Ev'
INTT = '@_ZN14NTT_Goldilocks4INTTEPN10Goldilocks7ElementES2_mmS2_mmb'; EXT = '@_ZN14NTT_Goldilocks9extendPolEPN10Goldilocks7ElementES2_mmmS2_mm'
W_G = '@_ZN10Goldilocks1WE'; SHIFT_G = '@_ZN10Goldilocks5SHIFTE'
FIELDS = ['s', 'nThreads', 'nqr', 'roots', 'powTwoInv', 'r', 'r_', 'extension']   # class layout, offsets 0,4,8,16,24,32,40,48

def setup(ctx):
    w = core.world(ctx.bdir, MODS); w.hooks = dict(w.base_hooks); w.concretize_div = True
    alg = fmode.Alg('uf'); fmode.install_scalar(w, alg)
    return w, alg

def W_of(w, d):
    v = w.gobj[W_G].cells[d]
    n = 1 << d
    if not (pow(v, n, P) == 1 and (n == 1 or pow(v, n // 2, P) != 1)): raise Unsupported('library root W[%d] is not a primitive 2^%d-th root of unity' % (d, d))
    return v

def dft_coef(w, d, inverse):
    n = 1 << d; wr = W_of(w, d)
    if not inverse: return [[pow(wr, (j * k) % n, P) for j in range(n)] for k in range(n)]
    ninv = pow(n, -1, P); wi = pow(wr, -1, P)
    return [[ninv * pow(wi, (j * k) % n, P) % P for j in range(n)] for k in range(n)]

def lde_coef(w, a, b):
    """out[k] = Σ_j coef[k][j]·in[j]:  f interpolates in[] on the 2^a-th roots, evaluated at 7·w_Next^k"""
    N = 1 << a; NE = 1 << b; wn = W_of(w, a); we = W_of(w, b); shift = w.gobj[SHIFT_G].cells[0]
    if shift != 7: raise Unsupported('coset shift is %d, expected 7' % shift)
    ninv = pow(N, -1, P); wni = pow(wn, -1, P); out = []
    for k in range(NE):
        pt = shift * pow(we, k, P) % P; pw = [pow(pt, i, P) for i in range(N)]
        out.append([ninv * sum(pow(wni, (i * j) % N, P) * pw[i] for i in range(N)) % P for j in range(N)])
    return out

def new_object(w, it, s_, nthreads=1):
    this = Obj(w.sizeof(Ty('named', name='%class.NTT_Goldilocks')), 'this', 8, 'arg')
    it.call(CT, [Ptr(this, 0), 1 << s_, nthreads, 1]); return this

def obj_state(w, this):
    """immutable part of the object as python data (for the frame assertion of C19)"""
    st = {}
    s_ = w.load(Ptr(this, 0), I(32)); st['s'] = s_; st['nThreads'] = w.load(Ptr(this, 4), I(32)); st['extension'] = w.load(Ptr(this, 48), I(32))
    roots = this.cells.get(2); pti = this.cells.get(3)
    st['roots'] = (id(roots.obj), tuple(core.words(roots.obj))) if isinstance(roots, Ptr) and roots.obj is not None else None
    st['powTwoInv'] = (id(pti.obj), tuple(core.words(pti.obj))) if isinstance(pti, Ptr) and pti.obj is not None else None
    return st

def r_class(w, this):
    """None if r,r_ are NULL, else N' such that r,r_ are exactly the tables computeR(N') builds (or 'bad')"""
    r = this.cells.get(4); r_ = this.cells.get(5)
    rn = isinstance(r, Ptr) and r.obj is None or (is_c(r) and r == 0); r_n = isinstance(r_, Ptr) and r_.obj is None or (is_c(r_) and r_ == 0)
    if rn and r_n: return None
    if rn != r_n: return 'bad'
    N = r.obj.size // 8
    if r_.obj.size != 8 * N or N & (N - 1): return 'bad'
    inv = pow(N, -1, P)
    for i in range(N):
        a = r.obj.cells.get(i); b = r_.obj.cells.get(i)
        if not (is_c(a) and is_c(b) and a % P == pow(7, i, P) and b % P == pow(7, i, P) * inv % P): return 'bad'
    return N

def fill(alg, o, rows, ncols, tag):
    if alg is None:       # concrete data (state discovery): values are irrelevant to the object state
        for j in range(rows):
            for c in range(ncols): o.cells[j * ncols + c] = (j * 7 + c + 1) % P
        return [[0] * ncols for _ in range(rows)]
    xs = [[alg.var('%s_%d_%d' % (tag, j, c)) for c in range(ncols)] for j in range(rows)]
    for j in range(rows):
        for c in range(ncols): o.cells[j * ncols + c] = FV(xs[j][c])
    return xs

def path_params(p, names):
    """concrete values of the symbolic schedule parameters on this path (a model of its path condition)"""
    s = z3.Solver(); s.add(p.pc)
    if s.check() != z3.sat: return {}
    m = s.model(); return {n: m.eval(z3.BitVec(n, 64), model_completion=True).as_long() for n in names}

def cover_check(paths, names):
    """the explored paths partition all 2^64 x 2^64 parameter values: not(Or(pc_i)) is unsat"""
    s = z3.Solver(); s.add(z3.Not(z3.Or([z3.And(p.pc) if p.pc else z3.BoolVal(True) for p in paths])))
    return smt.check(s) == z3.unsat

def check_outputs(alg, outs, coef, xs, ncols, tmo=120):
    """outs[k][c] (classes) vs Σ_j coef[k][j]·xs[j][c]; returns None or a counterexample dict.
       The executor's canonical linear forms only select which words to ask about first; the verdicts are z3's."""
    import time
    n_out = len(coef); n_in = len(coef[0]) if coef else 0
    if not n_out or not ncols: return None
    # pass 1: a word whose canonical difference is not identically zero is asked individually (expected sat, yields the model)
    for c in range(ncols):
        for k in range(n_out):
            sd = {}
            for j in range(n_in):
                (atom, one), = xs[j][c].c.items()      # inputs are single-atom forms
                cf = coef[k][j] % P
                if cf: sd[atom] = (sd.get(atom, 0) + cf) % P
            spec = alg.norm(fmode.LF({a_: v for a_, v in sd.items() if v}, 0))
            diff = alg.sub(outs[k][c], spec)
            if is_c(diff) and diff % P == 0: continue
            s = z3.Solver(); s.set('timeout', tmo * 1000); s.add(alg.toz3(diff) % P != 0); t0 = time.time(); r = s.check(); smt.STATS['queries'] += 1; smt.STATS['solver_s'] += time.time() - t0
            if r == z3.sat:
                m = s.model(); cex = {str(d): m[d].as_long() % P for d in m.decls() if z3.is_int_value(m[d])}; cex['_word'] = [k, c]; return cex
            if r == z3.unknown: raise Unsupported('output congruence query unknown')
    # pass 2: all words, implementation form against the independently built definition
    s = z3.Solver(); s.set('timeout', tmo * 1000); dis = []
    for c in range(ncols):
        xv = [alg.toz3(xs[j][c]) for j in range(n_in)]
        for k in range(n_out):
            spec = z3.Sum([coef[k][j] * xv[j] for j in range(n_in)]) if n_in else z3.IntVal(0)
            dis.append((alg.toz3(outs[k][c]) - spec) % P != 0)
    s.add(z3.Or(dis)); t0 = time.time(); r = s.check(); smt.STATS['queries'] += 1; smt.STATS['solver_s'] += time.time() - t0
    if r == z3.unsat: return None
    if r == z3.unknown: raise Unsupported('output congruence query unknown')
    m = s.model(); return {str(d): m[d].as_long() % P for d in m.decls() if z3.is_int_value(m[d])}

# ---------------------------------------------------------------- one call of NTT / INTT / extendPol on a fresh or used object
def do_call(w, alg, it, this, kind, d, ncols, dstmode, buf, tag='x', a=None, params=None):
    """performs the call with symbolic nphase/nblock (or the concrete pair `params`); returns (outs[k][c], xs, coef, src_unchanged_ok)"""
    if params is None: nphase = z3.BitVec('nphase_' + tag, 64); nblock = z3.BitVec('nblock_' + tag, 64)
    else: nphase, nblock = params
    if kind.endswith('b'): kind = kind[:-1]; buf = True       # history elements 'nttb' / 'inttb' / 'extb': the same call with a caller-provided buffer
    if kind in ('ntt', 'intt'):
        n = (1 << d) if d >= 0 else 0
        src = Obj(8 * n * ncols, 'src', 8); xs = fill(alg, src, n, ncols, tag)
        before = list(core.words(src))
        if dstmode == 'other': dst = Ptr(Obj(8 * n * ncols, 'dst', 8), 0)
        elif dstmode == 'same': dst = Ptr(src, 0)
        else: dst = NULL
        bufp = Ptr(Obj(8 * n * ncols, 'buffer', 8), 0) if buf else NULL
        if kind == 'ntt': it.call(NTT, [Ptr(this, 0), dst, Ptr(src, 0), n, ncols, bufp, nphase, nblock, 0, 0])
        else: it.call(INTT, [Ptr(this, 0), dst, Ptr(src, 0), n, ncols, bufp, nphase, nblock, 0])
        outo = dst.obj if dstmode == 'other' else src
        if buf and n and ncols: min_buffer_check(it, bufp.obj, n, ncols, nblock, kind)
        if n == 0 or ncols == 0:
            if dstmode == 'other' and outo.cells: raise Violation('wrote-on-noop', 'size 0 / zero columns must be a no-op, destination was written')
            return [], xs, [], True
        outs = [[fmode.cls_of(outo.cells.get(k * ncols + c, None) if outo.cells.get(k * ncols + c) is not None else _uninit(k, c)) for c in range(ncols)] for k in range(n)]
        same = True
        if dstmode == 'other':
            after = core.words(src); same = all(x is y for x, y in zip(before, after))
        return outs, xs, dft_coef(w, d, kind == 'intt'), same
    # extendPol: a = log2 N, d = log2 N_ext
    N = 1 << a; NE = 1 << d; inplace = dstmode == 'same'
    inp = Obj(8 * (NE if inplace else N) * ncols, 'in', 8); xs = fill(alg, inp, N, ncols, tag); before = list(core.words(inp))
    out = inp if inplace else Obj(8 * NE * ncols, 'out', 8)
    bufp = Ptr(Obj(8 * NE * ncols, 'buffer', 8), 0) if buf else NULL
    it.call(EXT, [Ptr(this, 0), Ptr(out, 0), Ptr(inp, 0), NE, N, ncols, bufp, nphase, nblock])
    outs = [[fmode.cls_of(out.cells.get(k * ncols + c) if out.cells.get(k * ncols + c) is not None else _uninit(k, c)) for c in range(ncols)] for k in range(NE)]
    same = True
    if not inplace: same = all(x is y for x, y in zip(before, core.words(inp)))
    return outs, xs, lde_coef(w, a, d), same
def min_buffer_check(it, bo, n, ncols, nblock, kind):
    """The harness hands over a caller buffer of n*ncols words so that the run itself never faults; the smallest buffer the interface admits is
       the one the library allocates for itself when buffer == NULL: size * ceil(ncols / clamp(nblock, 1, ncols)) words.  For every effective
       block count k the path condition admits, the words the call touched in the buffer must lie inside that extent (solver query on the
       path condition; nblock is symbolic)."""
    ext = (max(bo.cells) + 1) if bo.cells else 0
    for k in range(1, ncols + 1):
        need = n * ((ncols + k - 1) // k)
        if ext <= need: continue
        if is_c(nblock): hit = min(max(nblock, 1), ncols) == k
        else:
            nb = tobv(nblock, 64)
            cond = z3.ULE(nb, bvv(1, 64)) if k == 1 else (z3.UGE(nb, bvv(ncols, 64)) if k == ncols else nb == bvv(k, 64))
            if k == 1 and ncols == 1: cond = z3.BoolVal(True)
            hit = it.feasible(cond)
            if hit: it.pc.append(cond)      # the parameters reported with the violation are then taken from this class
        if hit:
            raise Violation('oob-write', '%s with a caller buffer of the size the library allocates for itself (size*ceil(ncols/nblock) = %d words for an effective nblock of %d) '
                                         'touches buffer word %d, i.e. writes past the end of that buffer' % (kind.upper(), need, k, ext - 1))

def _uninit(k, c): raise Violation('uninit-output', 'output word [%d][%d] was never written' % (k, c))

def finish(w, it, this):
    it.call(DT, [Ptr(this, 0)])
    # blocks still allocated after the destructor are not a violation of any property (the library may keep process-lifetime caches); noted only
    if w.heap: w.notes = getattr(w, 'notes', []) + ['%d heap block(s) still allocated after the destructor' % len(w.heap)]

def describe(kind, s_, d, ncols, dstmode, buf, a=None, pre=None):
    if kind == 'ext': t = 'NTT_Goldilocks(%d).extendPol(N_ext=%d, N=%d, ncols=%d, %s, buffer=%s)' % (1 << s_, 1 << d, 1 << a, ncols, 'output==input' if dstmode == 'same' else 'distinct buffers', 'caller' if buf else 'NULL')
    else: t = 'NTT_Goldilocks(%d).%s(size=%d, ncols=%d, dst=%s, buffer=%s)' % (1 << s_, kind.upper(), (1 << d) if d >= 0 else 0, ncols, {'other': 'other', 'same': 'src', 'null': 'NULL'}[dstmode], 'caller' if buf else 'NULL')
    if pre: t = 'after %s: ' % (pre,) + t
    return t

def ob_transform(ctx, prop, kind, s_, d, ncols, dstmode, buf, a=None, pre=None, nthreads=1, sched=None):
    """one configuration class, nphase and nblock ranging over all uint64 values; pre = earlier call on the same object (C19)"""
    w, alg0 = setup(ctx)
    names = ['nphase_x', 'nblock_x']
    def go(it):
        alg = fmode.Alg('uf'); fmode.install_scalar(w, alg)
        this = new_object(w, it, s_, nthreads)
        rc = None
        hist = [] if pre is None else ([pre] if isinstance(pre, tuple) else list(pre))
        for hi, (pk, pd, pa, pncols) in enumerate(hist):
            # earlier calls of the history: their data is symbolic, their schedule parameters are the defaults unless it is the only earlier call
            do_call(w, alg, it, this, pk, pd, pncols, 'other', False, tag='y%d' % hi if len(hist) > 1 else 'y', a=pa, params=None if len(hist) == 1 else (3, 1))
        outs, xs, coef, same = do_call(w, alg, it, this, kind, d, ncols, dstmode, buf, tag='x', a=a, params=sched)
        rc2 = None
        finish(w, it, this)
        cex = check_outputs(alg, outs, coef, xs, ncols)
        return dict(cex=cex, same=same, events=list(w.events), rclass=(rc, rc2))
    try: paths = explore(w, go, max_paths=400)
    except Unsupported as e:
        words = ((1 << d) if d >= 0 else 0) * ncols
        if 'field word' in str(e) and pre is None and 0 < words <= 8:
            # the code manipulates field words at bit level (outside the add/sub/mul contracts): decide this small class bit-precisely
            return ob_transform_bits(ctx, prop, kind, s_, d, ncols, dstmode, buf, a, nthreads, str(e))
        return inconc('exploration: %s' % e)
    desc = describe(kind, s_, d, ncols, dstmode, buf, a, pre)
    nm = names + (['nphase_y', 'nblock_y'] if pre else [])
    npaths = len(paths); soft = set()
    for p in paths:
        prm = path_params(p, nm)
        if sched is not None: prm['nphase_x'], prm['nblock_x'] = sched
        ps = ', '.join('%s=%d' % (k.split('_')[0] if k.endswith('_x') else k, v) for k, v in prm.items())
        rep = dict(kind=kind, s=s_, d=d, a=a, ncols=ncols, dstmode=dstmode, buf=buf, pre=pre, params=prm, nthreads=nthreads)
        if p.status == 'violation':
            e = p.result
            return viol('%s/%s' % (kind if not pre else 'history', e.kind), '%s [%s]: %s' % (desc, ps, e.msg), replay=rep)
        if p.status == 'terminated':
            return viol('%s/terminated' % kind, '%s [%s]: process terminated: %s' % (desc, ps, p.result), replay=rep)
        r = p.result
        if r['cex'] is not None:
            rep['x'] = r['cex']
            return viol('%s/wrong-value' % (kind if not pre else 'history'), '%s [%s]: an output word differs from the %s definition (counterexample input in replay file)' % (desc, ps, {'ntt': 'DFT', 'intt': 'inverse DFT', 'ext': 'low-degree-extension'}[kind]), replay=rep)
        if not r['same']: return viol('%s/src-modified' % kind, '%s [%s]: source buffer modified although the destination is a different buffer' % (desc, ps), replay=rep)
        for ev in r['events']: soft.add(ev)
    if not cover_check(paths, nm): return inconc('explored schedule classes do not cover all parameter values')
    if soft and prop == 'C18':
        ev = sorted(soft)[0]
        return viol('%s/%s' % ('lifetime', ev[0]), '%s: %s' % (desc, ev[1]), replay=dict(kind=kind, s=s_, d=d, a=a, ncols=ncols, dstmode=dstmode, buf=buf, pre=pre, event=list(ev), nthreads=nthreads, params={}))
    return ok(('%d schedule classes cover all 2^128 (nphase, nblock) values; every output word ≡ definition' % npaths) if sched is None else ('nphase=%d nblock=%d: every output word ≡ definition' % sched),
              sample=dict(call=desc, schedule_classes=npaths, params_of_first_class=path_params(paths[0], nm)))

def ob_transform_bits(ctx, prop, kind, s_, d, ncols, dstmode, buf, a, nthreads, why):
    """bit-precise variant for small classes: 64-bit symbolic input words, the real asm of add/sub/mul interpreted, every output word proved
       congruent to the definition on the integer encoding (multiplications are by the concrete twiddles, hence linear)"""
    w = core.world(ctx.bdir, MODS); w.hooks = dict(w.base_hooks); w.concretize_div = True
    desc = describe(kind, s_, d, ncols, dstmode, buf, a) + ' [bit-precise fallback: %s]' % why[:60]
    class BitAlg:
        def var(s, name): return z3.BitVec(name, 64)
    def go(it):
        this = new_object(w, it, s_, nthreads)
        outs, xs, coef, same = do_call_bits(w, it, this, kind, d, ncols, dstmode, buf, a)
        finish(w, it, this); return outs, xs, coef, same
    try: paths = explore(w, go, max_paths=200)
    except Unsupported as e: return inconc('bit-precise fallback: %s' % e)
    nq = 0
    for p in paths:
        prm = path_params(p, ['nphase_x', 'nblock_x']); rep = dict(kind=kind, s=s_, d=d, a=a, ncols=ncols, dstmode=dstmode, buf=buf, pre=None, params=prm, nthreads=nthreads)
        if p.status != 'ok': return viol('%s/%s' % (kind, getattr(p.result, 'kind', 'terminated')), '%s %s: %s' % (desc, prm, p.result), replay=rep)
        outs, xs, coef, same = p.result
        for k in range(len(coef)):
            for c in range(ncols):
                o = outs[k][c]; row = coef[k]
                r = smt.prove(lambda tr: (tr.val(tobv(o, 64)) - sum(row[j] * tr.val(xs[j][c]) for j in range(len(row)))) % P == 0, assumptions=list(p.pc), timeout=60); nq += 1
                if r.status == 'sat':
                    rep['x'] = {nm: v for nm, v in r.model.items() if nm.startswith('x_')}
                    okr, text = native_replay(ctx, rep)
                    if okr: return viol('%s/wrong-value' % kind, '%s %s: output word [%d][%d] differs from the definition for a specific input representation [native replay: %s]' % (desc, prm, k, c, text), replay=rep)
                    return inconc('ENCODING-MISMATCH: bit-precise counterexample does not reproduce natively (%s)' % text)
                if r.status != 'unsat': return inconc('bit-precise fallback: %s' % r.info)
    return ok('%d schedule classes, %d word congruences proved bit-precisely' % (len(paths), nq), sample=dict(call=desc))

def do_call_bits(w, it, this, kind, d, ncols, dstmode, buf, a):
    nphase = z3.BitVec('nphase_x', 64); nblock = z3.BitVec('nblock_x', 64)
    def mk(rows, name, size_rows=None):
        o = Obj(8 * (size_rows or rows) * ncols, name, 8); xs = [[z3.BitVec('x_%d_%d' % (j, c), 64) for c in range(ncols)] for j in range(rows)]
        for j in range(rows):
            for c in range(ncols): o.cells[j * ncols + c] = xs[j][c]
        return o, xs
    if kind in ('ntt', 'intt'):
        n = 1 << d; src, xs = mk(n, 'src'); before = list(core.words(src))
        dst = Ptr(Obj(8 * n * ncols, 'dst', 8), 0) if dstmode == 'other' else (Ptr(src, 0) if dstmode == 'same' else NULL)
        bufp = Ptr(Obj(8 * n * ncols, 'buffer', 8), 0) if buf else NULL
        it.call(NTT if kind == 'ntt' else INTT, [Ptr(this, 0), dst, Ptr(src, 0), n, ncols, bufp, nphase, nblock] + ([0, 0] if kind == 'ntt' else [0]))
        outo = dst.obj if dstmode == 'other' else src
        outs = [[outo.cells.get(k * ncols + c) for c in range(ncols)] for k in range(n)]
        return outs, xs, dft_coef(w, d, kind == 'intt'), True
    N = 1 << a; NE = 1 << d; inplace = dstmode == 'same'
    inp, xs = mk(N, 'in', NE if inplace else N); out = inp if inplace else Obj(8 * NE * ncols, 'out', 8)
    bufp = Ptr(Obj(8 * NE * ncols, 'buffer', 8), 0) if buf else NULL
    it.call(EXT, [Ptr(this, 0), Ptr(out, 0), Ptr(inp, 0), NE, N, ncols, bufp, nphase, nblock])
    return [[out.cells.get(k * ncols + c) for c in range(ncols)] for k in range(NE)], xs, lde_coef(w, a, d), True

# ---------------------------------------------------------------- native replay
class DefaultX(dict):
    """counterexample inputs; words the solver left unconstrained get distinct non-zero defaults so that unwritten outputs are visible"""
    def get(s, k, default=0):
        if k in s: return s[k]
        import zlib; return (zlib.crc32(k.encode()) % 1000003) * 2654435761 % P + 1
def native_replay(ctx, d):
    """re-run a counterexample configuration on the natively compiled library (forked: it may abort or fault)"""
    kind = d['kind']; s_ = d['s']; dd = d['d']; a = d.get('a'); ncols = d['ncols']; prm = d.get('params') or {}
    nphase = prm.get('nphase_x', 3); nblock = prm.get('nblock_x', 1); x = DefaultX(d.get('x') or {})
    lib = core.native(ctx.bdir, 'avx2')
    w = core.world(ctx.bdir, MODS)
    def body():
        sz = lib.gv_ntt_sizeof; sz.restype = ctypes.c_ulong
        this = ctypes.create_string_buffer(sz() + 64)
        lib.gv_ntt_construct(this, ctypes.c_ulong(1 << s_), ctypes.c_uint(d.get('nthreads', 1)), ctypes.c_int(1))
        U = ctypes.c_uint64
        def call_(kind, dd, a, ncols, dstmode, buf, nphase, nblock, tag):
            if kind.endswith('b'): kind = kind[:-1]; buf = True
            if kind in ('ntt', 'intt'):
                n = (1 << dd) if dd >= 0 else 0
                src = (U * max(1, n * ncols))(*[x.get('%s_%d_%d' % (tag, j, c), 0) for j in range(n) for c in range(ncols)])
                dst = (U * max(1, n * ncols))(*([0xDEADBEEFDEADBEEF % P] * max(1, n * ncols))) if dstmode == 'other' else (src if dstmode == 'same' else None)
                bufp = (U * max(1, n * ncols))() if buf else None
                f = getattr(lib, (NTT if kind == 'ntt' else INTT)[1:]); f.restype = None
                args = [this, dst, src, U(n), U(ncols), bufp, U(nphase), U(nblock)] + ([ctypes.c_bool(False), ctypes.c_bool(False)] if kind == 'ntt' else [ctypes.c_bool(False)])
                f(*args); out = dst if dstmode == 'other' else src
                return [out[i] for i in range(n * ncols)], [src[i] for i in range(n * ncols)]
            N = 1 << a; NE = 1 << dd; inplace = dstmode == 'same'
            inp = (U * ((NE if inplace else N) * ncols))(*[x.get('%s_%d_%d' % (tag, j, c), 0) for j in range(N) for c in range(ncols)])
            out = inp if inplace else (U * (NE * ncols))(*([0xDEADBEEFDEADBEEF % P] * (NE * ncols)))
            bufp = (U * (NE * ncols))() if buf else None
            f = getattr(lib, EXT[1:]); f.restype = None
            f(this, out, inp, U(NE), U(N), U(ncols), bufp, U(nphase), U(nblock))
            return [out[i] for i in range(NE * ncols)], [inp[i] for i in range(N * ncols)]
        if d.get('pre'):
            hist_ = [d['pre']] if not isinstance(d['pre'][0], (list, tuple)) else list(d['pre'])
            for hi, (pk, pd, pa, pncols) in enumerate(hist_):
                if len(hist_) == 1: call_(pk, pd, pa, pncols, 'other', False, prm.get('nphase_y', 3), prm.get('nblock_y', 1), 'y')
                else: call_(pk, pd, pa, pncols, 'other', False, 3, 1, 'y%d' % hi)
        return call_(kind, dd, a, ncols, d['dstmode'], d['buf'], nphase, nblock, 'x')
    r = core.forked(body)
    if r[0] != 'ok': return True, 'native run ended with %s %s' % r
    out, src_after = r[1]
    if kind in ('ntt', 'intt'):
        n = (1 << dd) if dd >= 0 else 0; coef = dft_coef(w, dd, kind == 'intt') if n and ncols else []; nin = n
    else: coef = lde_coef(w, a, dd); nin = 1 << a
    for k in range(len(coef)):
        for c in range(ncols):
            exp = sum(coef[k][j] * x.get('x_%d_%d' % (j, c), 0) for j in range(nin)) % P
            if out[k * ncols + c] % P != exp: return True, 'native output[%d][%d] = %#x (= %d mod p), definition gives %d' % (k, c, out[k * ncols + c], out[k * ncols + c] % P, exp)
    return False, 'native run agrees with the definition'

def confirm(ctx, r, prop=None):
    """turn an interpreter-level violation into a confirmed one where a native replay is meaningful"""
    if r['status'] != 'violation': return r
    rep = r.get('replay') or {}
    if r['key'].split('/')[-1] in ('ub', 'misaligned'):
        # language-level undefined behaviour (shift >= width, nsw/nuw overflow, misaligned vector access): silent on x86, so no native run
        # can confirm it; it is C18's subject.  Other checks cannot continue past it and answer inconclusive.
        if prop == 'C18': r['detail'] += ' [undefined behaviour at the language level: not observable in a native run; a sanitizer-class event reported from the interpreter]'; return r
        return inconc('undefined behaviour reached while executing the call (%s); reported as a violation by C18, this check cannot continue past it' % r['detail'][:160])
    if rep.get('event') and rep['event'][0] in ('mismatched-free',): r['detail'] += ' [allocator mismatch is undefined behaviour that no native run observes; reported from the allocation-kind tracking of the interpreter]'; return r
    key = r['key'].split('/')[-1]
    if key in ('leak', 'object-mutated', 'uninit-read', 'oob-read', 'oob-write', 'uninit-output', 'src-modified', 'wrote-on-noop', 'mismatched-free', 'use-after-free'):
        # memory-safety events: silent natively (or heap corruption); for wrong-value consequences try the native replay, else report as is
        try:
            okr, text = native_replay(ctx, rep)
            r['detail'] += ' [native replay: %s]' % text
        except Exception as e: r['detail'] += ' [native replay not possible: %s]' % e
        return r
    try: okr, text = native_replay(ctx, rep)
    except Exception as e: return inconc('replay crashed: %s: %s' % (type(e).__name__, e))
    if okr: r['detail'] += ' [native replay: %s]' % text; return r
    return inconc('ENCODING-MISMATCH: interpreter reports "%s" but the native library does not reproduce it (%s)' % (r['detail'][:200], text))

def ob(ctx, *a, **kw): return confirm(ctx, ob_transform(ctx, *a, **kw), prop=a[0] if a else None)

def replay(ctx, d):
    if d.get('event'): return True, 'lifetime event (not observable natively): %s' % (d['event'],)
    return native_replay(ctx, d)

# ---------------------------------------------------------------- translator validation: concrete run through interpreter vs native vs definition
def validate(ctx, cases=None):
    rng = ctx.rng('ntt'); n = 0; bad = []
    w, alg = setup(ctx)
    for (kind, s_, d, a, ncols, nphase, nblock) in (cases or [('ntt', 3, 3, None, 2, 3, 1), ('intt', 3, 2, None, 1, 2, 1), ('ntt', 4, 4, None, 3, 3, 2), ('ext', 2, 3, 2, 2, 3, 1), ('intt', 4, 4, None, 2, 1, 2)]):
        rows = (1 << a) if kind == 'ext' else (1 << d)
        x = {'x_%d_%d' % (j, c): rng.choice([0, 1, P - 1, P, 2**64 - 1, rng.getrandbits(64)]) for j in range(rows) for c in range(ncols)}
        dcfg = dict(kind=kind, s=s_, d=d, a=a, ncols=ncols, dstmode='other', buf=False, params={'nphase_x': nphase, 'nblock_x': nblock}, x=x)
        okr, text = native_replay(ctx, dcfg); n += 1
        if okr: continue      # native disagrees with the definition: left to the solver to report
        # interpreter, concrete mode
        w.reset(); w.hooks = dict(w.base_hooks); it = Interp(w)
        this = new_object(w, it, s_ if kind != 'ext' else a)
        if kind == 'ext':
            inp = core.obj_words('in', [x['x_%d_%d' % (j, c)] for j in range(rows) for c in range(ncols)], 8); out = Obj(8 * (1 << d) * ncols, 'out', 8)
            it.call(EXT, [Ptr(this, 0), Ptr(out, 0), Ptr(inp, 0), 1 << d, 1 << a, ncols, NULL, nphase, nblock]); res = core.words(out); coef = lde_coef(w, a, d)
        else:
            src = core.obj_words('src', [x['x_%d_%d' % (j, c)] for j in range(rows) for c in range(ncols)], 8); dst = Obj(8 * rows * ncols, 'dst', 8)
            it.call(NTT if kind == 'ntt' else INTT, [Ptr(this, 0), Ptr(dst, 0), Ptr(src, 0), rows, ncols, NULL, nphase, nblock] + ([0, 0] if kind == 'ntt' else [0])); res = core.words(dst); coef = dft_coef(w, d, kind == 'intt')
        for k in range(len(coef)):
            for c in range(ncols):
                exp = sum(coef[k][j] * x['x_%d_%d' % (j, c)] for j in range(rows)) % P
                if res[k * ncols + c] % P != exp: bad.append('%s concrete interpreter run disagrees with the definition at [%d][%d]' % (kind, k, c)); break
    return {'vectors': n, 'mismatches': bad}

# ---------------------------------------------------------------- composed round trips (corollary of the two definitional checks; run as one symbolic call pair)
def ob_roundtrip(ctx, order, s_, d, ncols):
    w, _ = setup(ctx)
    def go(it):
        alg = fmode.Alg('uf'); fmode.install_scalar(w, alg)
        this = new_object(w, it, s_); n = 1 << d
        buf1 = Obj(8 * n * ncols, 'a', 8); xs = fill(alg, buf1, n, ncols, 'x'); buf2 = Obj(8 * n * ncols, 'b', 8)
        f1, f2 = (NTT, INTT) if order == 'intt(ntt)' else (INTT, NTT)
        for f, src, dst, tag in ((f1, buf1, buf2, 'x'), (f2, buf2, buf1, 'y')):
            np_ = z3.BitVec('nphase_' + tag, 64); nb_ = z3.BitVec('nblock_' + tag, 64)
            it.call(f, [Ptr(this, 0), Ptr(dst, 0), Ptr(src, 0), n, ncols, NULL, np_, nb_] + ([0, 0] if f == NTT else [0]))
        finish(w, it, this)
        outs = [[fmode.cls_of(buf1.cells[k * ncols + c]) for c in range(ncols)] for k in range(n)]
        ident = [[1 if j == k else 0 for j in range(n)] for k in range(n)]
        return dict(cex=check_outputs(alg, outs, ident, xs, ncols))
    try: paths = explore(w, go, max_paths=2000)
    except Unsupported as e: return inconc('exploration: %s' % e)
    nm = ['nphase_x', 'nblock_x', 'nphase_y', 'nblock_y']
    for p in paths:
        prm = path_params(p, nm)
        if p.status != 'ok': return viol('roundtrip/%s' % getattr(p.result, 'kind', 'terminated'), '%s size=%d ncols=%d %s: %s' % (order, 1 << d, ncols, prm, p.result), replay=dict(event=[str(p.result)], kind='roundtrip'))
        if p.result['cex'] is not None: return viol('roundtrip/wrong-value', '%s size=%d ncols=%d %s is not the identity' % (order, 1 << d, ncols, prm), replay=dict(event=['roundtrip'], kind='roundtrip', x=p.result['cex'], params=prm))
    if not cover_check(paths, nm): return inconc('classes do not cover all parameter values')
    return ok('%d schedule class pairs (independent nphase/nblock in the two directions): identity' % len(paths), sample=dict(order=order, size=1 << d, ncols=ncols, class_pairs=len(paths)))


# ---------------------------------------------------------------- C19: reachable object states by closure (concrete runs, no solver)
def signature(w, this):
    """abstract state of a transform object: every scalar field, and for every pointer field the words of the table it points to"""
    sig = []
    for i in range(this.size // 8):
        c = this.cells.get(i)
        if isinstance(c, Ptr): sig.append(None if c.obj is None else tuple(core.words(c.obj)))
        else: sig.append(c if is_c(c) else None)
    return tuple(sig)

def discover_states(ctx, s_, calls, max_depth=3, max_states=20):
    """breadth-first closure of the object states reachable by call histories over `calls`; returns [(history, signature)] (first = fresh object)"""
    w = core.world(ctx.bdir, MODS); seen = {}; order = []
    def run(hist):
        w.reset(); w.hooks = dict(w.base_hooks); w.concretize_div = True; it = Interp(w)
        this = new_object(w, it, s_, 1)
        for (k, d, a, nc) in hist: do_call(w, None, it, this, k, d, nc, 'other', False, a=a, params=(3, 1))
        return signature(w, this)
    frontier = [()]
    try: seen[run(())] = ()
    except (Violation, Terminated, Unsupported): return [((), None)]
    order.append(())
    for depth in range(max_depth):
        nxt = []
        for h in frontier:
            for c in calls:
                h2 = h + (c,)
                try: sg = run(h2)
                except (Violation, Terminated, Unsupported): continue      # reported by the obligation that replays this history
                if sg not in seen:
                    seen[sg] = h2; order.append(h2); nxt.append(h2)
                    if len(order) >= max_states: return [(h_, None) for h_ in order]
        frontier = nxt
        if not frontier: break
    return [(h_, None) for h_ in order]


# ---------------------------------------------------------------- bit-reversal helper (all index widths, not only the transform sizes in the bound)
def ob_bitrev(ctx):
    """the static helper BR(x, w) of ntt_goldilocks.cpp is loop-free bit manipulation: for every width w = 1..32 and every x < 2^w it must return
       the w-bit reversal of x.  Decided bit-precisely for all x at once; this reaches transform sizes (2^17 .. 2^32) no executed class can."""
    w = core.world(ctx.bdir, MODS); w.hooks = dict(w.base_hooks)
    fn = '@_ZL2BRmm'
    if fn not in w.funcs:
        cands = [n for n, f in w.funcs.items() if re.search(r'(^@_ZL\d+|^@_Z\d*)\w*(BR|[Bb]it[Rr]ev)', n) and len(f.params) == 2]
        if len(cands) != 1: return ok('no separate two-argument bit-reversal helper in the IR (nothing to decide here; the permutation is exercised by the transform classes)', sample=dict(part='bitrev', helper=None))
        fn = cands[0]
    x = z3.BitVec('brx', 64); nq = 0
    for wd in range(1, 33):
        w.reset(); w.hooks = dict(w.base_hooks); it = Interp(w)
        try: r = it.call(fn, [x, wd])
        except (Unsupported, Violation) as e: return inconc('bit-reversal helper at width %d: %s' % (wd, e))
        if it.worklist: return inconc('bit-reversal helper forks on its argument (not the loop-free form this obligation handles)')
        ref = z3.ZeroExt(64 - wd, z3.Concat(*[z3.Extract(i, i, x) for i in range(wd)])) if wd > 1 else z3.ZeroExt(63, z3.Extract(0, 0, x))
        res = smt.prove_plain([z3.ULT(x, z3.BitVecVal(1 << wd, 64))] + list(it.pc) + [tobv(r, 64) != ref], timeout=30); nq += 1
        if res.status == 'sat':
            xv = res.model.eval(x, model_completion=True).as_long()
            return confirm_bitrev(ctx, fn, wd, xv)
        if res.status != 'unsat': return inconc('bit-reversal width %d: solver %s' % (wd, res.status))
    return ok('BR(x, w) is the w-bit reversal of x for every w = 1..32 and every x < 2^w (%d bit-vector queries): the permutation index is right for every transform size up to 2^32' % nq, sample=dict(part='bitrev', widths='1..32', helper=fn))

def confirm_bitrev(ctx, fn, wd, xv):
    """a wrong permutation index shows in the transform of that size: native NTT of 2^wd points on a one-hot column compared with w^(j·k)"""
    text = 'bit-reversal helper: BR(%#x, %d) is not the %d-bit reversal' % (xv, wd, wd)
    if wd > 22: return inconc(text + '; the transform of 2^%d points is too large for a native confirmation run here' % wd)
    lib = core.native(ctx.bdir, 'avx2'); n = 1 << wd; U = ctypes.c_uint64
    def body():
        sz = lib.gv_ntt_sizeof; sz.restype = ctypes.c_ulong
        this = ctypes.create_string_buffer(sz() + 64)
        lib.gv_ntt_construct(this, ctypes.c_ulong(n), ctypes.c_uint(4), ctypes.c_int(1))
        bad = None
        for j in sorted({1, xv % n, (n - 1)}):
            src = (U * n)(); src[j] = 1; dst = (U * n)()
            f = getattr(lib, NTT[1:]); f.restype = None
            f(this, dst, src, U(n), U(1), None, U(3), U(1), ctypes.c_bool(False), ctypes.c_bool(False))
            wn = pow(7, (P - 1) // n, P); wj = pow(wn, j, P); cur = 1
            for k in range(n):
                if dst[k] % P != cur: bad = (j, k, dst[k] % P, cur); break
                cur = cur * wj % P
            if bad: break
        return bad
    r = core.forked(body, timeout=600)
    if r[0] != 'ok': return viol('ntt/bitrev', '%s; native NTT of %d points ended with %s %s' % (text, n, r[0], r[1]), replay=dict(event=['bitrev'], width=wd, x=xv))
    if r[1]: return viol('ntt/bitrev', '%s; native NTT of %d points on the one-hot input e_%d: output[%d] = %d, the DFT gives %d' % ((text, n) + tuple(r[1])), replay=dict(event=['bitrev'], width=wd, x=xv))
    return inconc(text + ', but the native transform of %d points on one-hot inputs is correct' % n)
