# C18 — no out-of-bounds, uninitialised, mismatched-free or undefined behaviour.
# Not a separate engine: the interpreter checks every executed instruction (extent of every load/store/memcpy/memset against the object's exact
# size, reads of never-written cells, allocator kind at release, double free, use after free, leaks at destruction, nsw/nuw overflow / shift >=
# width / division by zero on the concrete index arithmetic, alignment of aligned vector accesses).  This check re-runs the harnesses of
# C03-C09, C13, C14, C16, C17, C19 with exact-size allocations and reports ONLY safety events (functional disagreements belong to those checks).
import z3
from .. import core
from ..interp import *
from ..runner import Ob, ok, viol, inconc
from . import ntt, C03, C05, C06, C07, C08, C09, C13, C14, C16, C17, C19

SAFETY = {'oob-read', 'oob-write', 'null-deref', 'uninit-read', 'uninit-output', 'use-after-free', 'double-free', 'bad-free', 'mismatched-free', 'ub', 'misaligned', 'unwritten'}
META = dict(
    functions=['everything executed by the harnesses of C03-C09, C13, C14, C16, C17, C19 (see their evidence), plus NTT_Goldilocks construction/destruction for maxDomainSize 0 and 1'],
    bounds={'quick': 'the quick shapes of the listed checks with exact-size buffers; object lifetimes: constructor, any method from every reachable-state class, destructor', 'thorough': 'their thorough shapes'},
    outside=['pointer-arithmetic overflow (inbounds) is not modelled', 'UB side conditions on symbolic (non-index) arithmetic: only the concrete index/size arithmetic of each run is checked', 'libstdc++ / GMP internals'],
    stubs=['allocator with kind tracking (malloc/new/new[]), never fails'],
    assumptions=['documented shapes: input extents implied by sizes/columns/strides, tree buffers of getTreeNumElements(rows) elements, scratch buffers of size*ncols elements'],
    trusted_base=['interpreter memory model (8-byte cells, per-cell initialisation, object extents)'])

def wrap(fn):
    def run(ctx, *a, **kw):
        r = fn(ctx, *a, **kw)
        if r['status'] == 'violation':
            kind = r['key'].split('/')[-1]
            if kind in SAFETY: return r
            return ok('no safety event (a functional disagreement "%s" is reported by the owning check, not by C18)' % r['key'], sample=r.get('sample'))
        return r
    return run

def ob_tiny(ctx, maxdom):
    """construction and destruction of the smallest transform objects"""
    w, alg = ntt.setup(ctx); it = Interp(w)
    this = Obj(w.sizeof(Ty('named', name='%class.NTT_Goldilocks')), 'this', 8, 'arg')
    try:
        it.call(ntt.CT, [Ptr(this, 0), maxdom, 1, 1]); it.call(ntt.DT, [Ptr(this, 0)])
    except Violation as e: return viol('lifetime/%s' % e.kind, 'NTT_Goldilocks(%d) construct+destroy: %s' % (maxdom, e.msg), replay=dict(event=str(e)))
    # blocks that survive the destructor are noted, not reported: no property forbids a process-lifetime cache
    for ev in w.events: return viol('lifetime/%s' % ev[0], 'NTT_Goldilocks(%d): %s' % (maxdom, ev[1]), replay=dict(event=list(ev)))
    return ok('construct + destroy: no leak, matching deallocators', sample=dict(maxDomainSize=maxdom))

def obligations(ctx):
    obs = [Ob('tiny/maxDomain%d' % m, ob_tiny, (m,)) for m in (0, 1, 2)]
    # transforms (prop='C18': lifetime events such as allocator mismatches count)
    for kind in ('ntt', 'intt'):
        for i, (k, s_, d, ncols, dstmode, buf) in enumerate(C03.classes(ctx, kind)):
            obs.append(Ob('%s/s%d/d%d/c%d/%s/%s' % (k, s_, d, ncols, dstmode, 'buf' if buf else 'nobuf'), wrap(ntt.ob), ('C18', k, s_, d, ncols, dstmode, buf), dict(nthreads=(1, 3, 0, 2)[i % 4]), weight=(1 << max(d, 0)) * max(ncols, 1)))
    for (a, b, ncols, inplace, buf) in C05.classes(ctx):
        obs.append(Ob('ext/N%d/Next%d/c%d/%s/%s' % (1 << a, 1 << b, ncols, 'inplace' if inplace else 'distinct', 'buf' if buf else 'nobuf'), wrap(ntt.ob), ('C18', 'ext', a, b, ncols, 'same' if inplace else 'other', buf), dict(a=a), weight=(1 << b) * ncols))
    for o in C19.obligations(ctx):
        if o.id.startswith('contract/'): continue
        args = ('C18',) + tuple(o.args[1:]); obs.append(Ob('history/' + o.id, wrap(o.fn), args, o.kwargs, weight=o.weight))
    for mod, tag in ((C06, 'poseidon'), (C07, 'sponge'), (C08, 'merkle'), (C09, 'ext3'), (C13, 'mat-avx2'), (C14, 'mat-avx512'), (C16, 'ext3-batch'), (C17, 'base-batch')):
        for o in mod.obligations(ctx):
            if o.id.startswith('contract/'): continue
            obs.append(Ob('%s/%s' % (tag, o.id), wrap(o.fn), o.args, o.kwargs, weight=o.weight))
    return obs
def replay(ctx, d): return True, str(d)
