# C06 — Poseidon permutation: scalar, AVX2, AVX512 agree with the specification on all states.
from . import poseidon, C03, lanes, mat
from ..runner import Ob
META = dict(
    functions=['PoseidonGoldilocks::hash_full_result_seq', 'hash_full_result (AVX2)', 'hash_full_result_avx512', 'hash_seq / hash / hash_avx512', 'pow7*, add_*, mvp_, dot_, prod_, Goldilocks::mmult_avx*(_8), dot_avx*, (interpreted); constant tables C, S, M, P, M_, P_ from the IR'],
    bounds={'quick': 'none: constant trip counts; all states in [0,2^64)^12 (AVX512: all pairs of interleaved states)', 'thorough': 'same'},
    outside=[], stubs=[],
    assumptions=['field-level mode, products are uninterpreted commutative atoms hash-consed by the canonical linear form of their operands (syntactic congruence: equal canonical forms are congruent operands); final equalities are z3 queries on linear forms over the atoms',
                 'contracts relied on (re-proved in this run): scalar add/mul; lane kernels add/mult/square/add_b_small/add_b_c/mult_8; spmv_*_4x12(_8); the _small/_8/_b_c operand assumptions are discharged on the concrete constant tables at every call site'],
    trusted_base=['reference permutation gv/props/poseidon.py:reference (4 full, 22 partial in the optimised sparse form, 4 full rounds; x^7) over the constants read from the IR; M_/P_ checked to be the transposed layouts of M/P'])
def obligations(ctx):
    obs = [Ob('perm/' + v, poseidon.ob_perm, (v,), weight=10) for v in ('seq', 'avx', 'avx512')]
    obs += [Ob('hash4/' + v, poseidon.ob_hash4, (v,)) for v in ('seq', 'avx', 'avx512')]
    obs += C03.contract_obs(ctx)
    for cfg, n in (('avx2', 4), ('avx512', 8)):
        T = lanes.table(n == 8); sfx = '_avx512' if n == 8 else '_avx'
        from .. import fmode
        for kn in fmode.lane_contracts(n): obs.append(Ob('contract/%s' % kn, lanes.ob_kernel, (cfg, lanes.MODS[cfg], kn, T[kn], n)))
        for name, k in mat.kernels(n == 8).items():
            if k['kind'] == 'spmv': obs.append(Ob('contract/' + name, mat.ob_kernel, (cfg, n, name, k), weight=5))
    return obs
def validate(ctx):
    rng = ctx.rng('C06'); n = 0; bad = []
    for var in ('seq', 'avx', 'avx512'):
        S = 2 if var == 'avx512' else 1
        st = [[rng.getrandbits(64) for _ in range(12)] for _ in range(S)]
        nat = poseidon.native_perm(ctx, var, st); itp = poseidon.interp_perm(ctx, var, st); n += 1
        if nat is not None and nat != itp: bad.append('hash_full_result %s: native %s interpreter %s' % (var, nat, itp))
    return {'vectors': n, 'mismatches': bad}
def replay(ctx, d): return poseidon.replay(ctx, d)
