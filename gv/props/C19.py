# C19 — transform objects are reusable: results depend only on the call's arguments.
# The set of reachable object states is computed as a closure: starting from a fresh object, every call (NTT, INTT, extendPol of every size) is
# applied to every state found so far until no new state signature (all scalar fields + contents of every table the object points to) appears
# (breadth first, depth <= 3).  From every state so found, every method with symbolic data and symbolic nphase/nblock must return what a fresh
# object returns (the oracles of C03-C05).  On the shipped code the closure is {fresh} ∪ {tables for N' : N' <= 2^s} and closes at depth 2, which
# is the inductive argument for histories of any length; a change that introduces further states (a stale size field, a counter) makes the closure
# larger and the additional states are checked like any other.
from . import ntt, C03
from ..runner import Ob
META = dict(C03.META)
META['functions'] = ['NTT_Goldilocks::NTT', 'NTT_Goldilocks::INTT', 'NTT_Goldilocks::extendPol', 'NTT_Goldilocks::computeR (cached tables r, r_)'] + C03.META['functions']
META['bounds'] = {'quick': 'object domain 2^s, s <= 3; every object state in the closure of {NTT, INTT, extendPol(N\')} histories (depth <= 3) x every method x every size <= 2^s, ncols 1..2, nphase/nblock symbolic (all uint64); induction over the history length, no sequence is enumerated beyond the state-establishing call',
                  'thorough': 's <= 5, ncols 1..3'}
META['assumptions'] = C03.META['assumptions'] + ['state classes are established by one earlier call (extendPol of each size; NTT/INTT to exercise the frame assertion); the frame assertion (roots, powTwoInv, s, nThreads, extension unchanged) is checked after every call']
def hname(h):
    return 'fresh' if not h else '+'.join('%s%s' % (k, ('N%d' % (1 << a_)) if k.startswith('ext') else ('n%d' % (1 << d))) for (k, d, a_, nc) in h)
def obligations(ctx):
    S = 5 if ctx.thorough else 3; C = 3 if ctx.thorough else 2; obs = []
    for s_ in range(0, S + 1):
        calls = [('ext', min(a + 1, S + 1), a, 1) for a in range(0, s_ + 1)] + [('ntt', s_, None, 1), ('intt', max(s_ - 1, 0), None, 2)]
        # the same calls with a caller-provided scratch buffer (a different code path through allocation and restore logic); N_ext inside and outside the object's own domain
        calls += [('extb', a + 1, a, 1) for a in range(0, s_ + 1) if a + 1 <= S + 1][:3] + [('nttb', s_, None, 1)]
        states = ntt.discover_states(ctx, s_, calls, max_depth=3, max_states=16 if not ctx.thorough else 24)
        for (h, _) in states:
            if not h: continue       # the fresh object is C03-C05
            for ncols in range(1, C + 1):
                for d in range(0, s_ + 1):
                    for kind in ('ntt', 'intt'):
                        obs.append(Ob('s%d/after-%s/%s/d%d/c%d' % (s_, hname(h), kind, d, ncols), ntt.ob, ('C19', kind, s_, d, ncols, 'other', False), dict(pre=list(h)), weight=(1 << d)))
                for a in range(0, s_ + 1):
                    for b in (a, a + 1):
                        obs.append(Ob('s%d/after-%s/ext/N%d/Next%d/c%d' % (s_, hname(h), 1 << a, 1 << b, ncols), ntt.ob, ('C19', 'ext', s_, b, ncols, 'other', False), dict(a=a, pre=list(h)), weight=(1 << b)))
    return obs + C03.contract_obs(ctx)
def validate(ctx): return ntt.validate(ctx)
def replay(ctx, d): return ntt.replay(ctx, d)
