# C19 — transform objects are reusable: results depend only on the call's arguments.
# Inductive argument: the only fields any method writes are r / r_ (frame assertion after every call); reachable object states are therefore
# {r = r_ = NULL} ∪ {tables of computeR(N') : N' a size some earlier extendPol used}.  Every method is started from every such state with symbolic
# data and symbolic nphase/nblock, must leave a state of the same family, and must return what a fresh object returns (the oracles of C03-C05).
from . import ntt, C03
from ..runner import Ob
META = dict(C03.META)
META['functions'] = ['NTT_Goldilocks::NTT', 'NTT_Goldilocks::INTT', 'NTT_Goldilocks::extendPol', 'NTT_Goldilocks::computeR (cached tables r, r_)'] + C03.META['functions']
META['bounds'] = {'quick': 'object domain 2^s, s <= 3; every reachable-state class (r NULL, or cached for N\' in {1..2^s}) x every method x every size <= 2^s, ncols 1..2, nphase/nblock symbolic (all uint64); induction over the history length, no sequence is enumerated beyond the state-establishing call',
                  'thorough': 's <= 5, ncols 1..3'}
META['assumptions'] = C03.META['assumptions'] + ['state classes are established by one earlier call (extendPol of each size; NTT/INTT to exercise the frame assertion); the frame assertion (roots, powTwoInv, s, nThreads, extension unchanged) is checked after every call']
def obligations(ctx):
    S = 5 if ctx.thorough else 3; C = 3 if ctx.thorough else 2; obs = []
    for s_ in range(0, S + 1):
        pres = [('ext', min(a + 1, S + 1), a, 1) for a in range(0, s_ + 1)] + [('ntt', s_, None, 1), ('intt', max(s_ - 1, 0), None, 2)]
        for pre in pres:
            for ncols in range(1, C + 1):
                for d in range(0, s_ + 1):
                    for kind in ('ntt', 'intt'):
                        obs.append(Ob('after-%s%s/%s/s%d/d%d/c%d' % (pre[0], ('N%d' % (1 << pre[2])) if pre[0] == 'ext' else '', kind, s_, d, ncols), ntt.ob, ('C19', kind, s_, d, ncols, 'other', False), dict(pre=pre), weight=(1 << d)))
                for a in range(0, s_ + 1):
                    for b in (a, a + 1):
                        obs.append(Ob('after-%s%s/ext/s%d/N%d/Next%d/c%d' % (pre[0], ('N%d' % (1 << pre[2])) if pre[0] == 'ext' else '', s_, 1 << a, 1 << b, ncols), ntt.ob, ('C19', 'ext', s_, b, ncols, 'other', False), dict(a=a, pre=pre), weight=(1 << b)))
    return obs + C03.contract_obs(ctx)
def validate(ctx): return ntt.validate(ctx)
def replay(ctx, d): return ntt.replay(ctx, d)
