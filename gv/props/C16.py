# C16 — every batched / AVX2 / AVX512 cubic-extension variant equals the scalar operation.
from .. import overloads
from . import C03, lanes
from ..runner import Ob
META = dict(
    functions=['all Goldilocks3 (add|sub|mul)[shape]_(batch|avx|avx512) overloads found by the AST census (listed per obligation)'],
    bounds={'quick': 'none on values, strides and index lists (all 64-bit values incl. 0, collisions, permutations); 4 (AVX512: 8) elements per call as fixed by the API', 'thorough': 'same'},
    outside=['aliasing between the argument arrays (each pointer argument is a distinct unbounded object)'],
    stubs=[], assumptions=['field-level mode over the contracts of scalar add/sub/mul and the AVX2/AVX512 lane kernels add/sub/mult (re-proved in this run)',
                           'operand roles are inferred from the shape token in the name (13, 31, 33c, 13c, 31c, 1c3c; none = ext·ext), parameter types and names; aux*/b_ challenge sums (b0+b1, b0+b2, b1+b2) are a precondition; overloads whose roles cannot be inferred are listed under coverage.uncovered'],
    trusted_base=['role inference table gv/overloads.py (a wrong inference shows up as a violation that does not replay natively, never as a pass)'])
def obligations(ctx):
    obs, ms = overloads.obligations_for(ctx, 'Goldilocks3')
    META['_census'] = len(ms)
    return obs + contract_obs(ctx)
def contract_obs(ctx):
    obs = C03.contract_obs(ctx)
    for cfg, n in (('avx2', 4), ('avx512', 8)):
        T = lanes.table(n == 8); sfx = '_avx512' if n == 8 else '_avx'
        from .. import fmode
        for kn in fmode.lane_contracts(n): obs.append(Ob('contract/%s' % kn, lanes.ob_kernel, (cfg, lanes.MODS[cfg], kn, T[kn], n)))
    return obs
def extra_evidence(ctx):
    return dict(census_overloads=META.get('_census'), uncovered=list(overloads.UNCOVERED), uncovered_count=len(overloads.UNCOVERED))
def replay(ctx, d): return True, str(d)
