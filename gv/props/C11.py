# C11 — AVX512 lane kernels equal the scalar field op in every lane, every input (build -mavx512f -D__AVX512__).
from . import lanes
CFG = 'avx512'; N = 8
META = dict(
    functions=['Goldilocks::' + k for k in lanes.table(True)],
    bounds={'quick': 'none: loop-free kernels, all 8x64-bit register contents per operand under each documented operand assumption', 'thorough': 'same; cvc5 cross-check of linear obligations'},
    outside=['load/store helpers (pure data movement; covered through C17)'], stubs=[],
    assumptions=['documented operand assumptions are preconditions: canonical second operand (*_b_c), multiplier < 2^8 (*_8, *_72), c_h < 2^32 (reduce_avx512_96_64)'],
    trusted_base=['LLVM vector IR semantics of the AVX512 intrinsics as lowered by clang-14 (mask registers as <8 x i1>)'])
def obligations(ctx): return lanes.obligations(ctx, CFG, N)
def validate(ctx): return lanes.validate(ctx, CFG, N)
def replay(ctx, d): return lanes.replay(ctx, d)
