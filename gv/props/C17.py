# C17 — strided / offset / broadcast base-field wrappers and bulk copies move the right data.
import z3, ctypes
from .. import overloads, core, smt, kern
from ..interp import *
from . import C16
from ..runner import Ob, ok, viol, inconc
from ..kern import P
META = dict(
    functions=['all Goldilocks (copy|add|sub|mul)_(batch|avx|avx512) overloads found by the AST census (listed per obligation)', 'Goldilocks::parcpy', 'Goldilocks::parSetZero'],
    bounds={'quick': 'overloads: none on values, strides and index lists (all 64-bit values); parcpy/parSetZero: chunk arithmetic for all size < 2^60 and all int thread counts (symbolic), data movement executed for size 0..33 x threads {-3,0,1,2,3,8,100}', 'thorough': 'same'},
    outside=['aliasing between argument arrays', 'parcpy/parSetZero with size >= 2^60 (the ceiling expression size + n - 1 wraps only beyond 2^64 - 2^31)', 'the property text counts 191 overloads; the census of the shipped headers finds the number reported in coverage.census_overloads (commented-out AVX512 array forms have no definition and no behaviour)'],
    stubs=[], assumptions=C16.META['assumptions'],
    trusted_base=C16.META['trusted_base'])
PARCPY = '@_ZN10Goldilocks6parcpyEPNS_7ElementEPKS0_mi'; PARZERO = '@_ZN10Goldilocks10parSetZeroEPNS_7ElementEmi'

def ob_chunks(ctx, which):
    """chunk arithmetic of parcpy / parSetZero with symbolic size and thread count: executed from the OpenMP-outlined IR for one symbolic iteration"""
    from . import race
    return race.ob_parcpy_chunks(ctx, which)

def ob_move(ctx, which, size, nthreads):
    """sequential execution on exact-size buffers: exactly `size` words transferred / zeroed, nothing else touched"""
    w = core.world(ctx.bdir, ['gbf_avx2']); w.hooks = dict(w.base_hooks); it = Interp(w)
    src = core.obj_words('src', [z3.BitVec('s%d' % i, 64) for i in range(size)], 8); dst = core.obj_words('dst', [z3.BitVec('d%d' % i, 64) for i in range(size + 3)], 8)
    nt = nthreads & 0xFFFFFFFF
    try:
        if which == 'parcpy': it.call(PARCPY, [Ptr(dst, 0), Ptr(src, 0), size, nt])
        else: it.call(PARZERO, [Ptr(dst, 0), size, nt])
    except Violation as e: return viol('%s/%s' % (which, e.kind), '%s(size=%d, num_threads=%d): %s' % (which, size, nthreads, e.msg), replay=dict(which=which, size=size, nthreads=nthreads))
    for i in range(size):
        exp = src.cells[i] if which == 'parcpy' else 0
        got = dst.cells[i]
        if not ((is_c(got) and is_c(exp) and got == exp) or (z3.is_expr(got) and z3.is_expr(exp) and z3.eq(got, exp))): return viol(which, '%s(size=%d, num_threads=%d): element %d not transferred' % (which, size, nthreads, i), replay=dict(which=which, size=size, nthreads=nthreads))
    for i in range(size, size + 3):
        if not (z3.is_expr(dst.cells[i]) and str(dst.cells[i]) == 'd%d' % i): return viol(which, '%s(size=%d, num_threads=%d): element %d beyond size modified' % (which, size, nthreads, i), replay=dict(which=which, size=size, nthreads=nthreads))
    return ok('exactly %d words %s, 3 guard words untouched' % (size, 'copied' if which == 'parcpy' else 'zeroed'), sample=dict(function=which, size=size, num_threads=nthreads))

def obligations(ctx):
    obs, ms = overloads.obligations_for(ctx, 'Goldilocks')
    META['_census'] = len(ms); META['_undefined'] = [dict(name=m['name'], line=m['line']) for m in ms if not m['defined']]
    for which in ('parcpy', 'parSetZero'):
        obs.append(Ob('%s/chunk-arithmetic' % which, ob_chunks, (which,)))
        for size in range(0, 34):
            for nt in (-3, 0, 1, 2, 3, 8, 100):
                obs.append(Ob('%s/move/size%d/t%d' % (which, size, nt), ob_move, (which, size, nt)))
    return obs + C16.contract_obs(ctx)
def extra_evidence(ctx):
    return dict(census_overloads=META.get('_census'), declared_without_definition=META.get('_undefined'), uncovered=list(overloads.UNCOVERED), uncovered_count=len(overloads.UNCOVERED))
def replay(ctx, d): return True, str(d)
