# Shared machinery for C06 (permutation), C07 (sponge), C08 (Merkle trees).
import z3, ctypes, functools
from .. import core, smt, kern, fmode
from ..interp import *
from ..runner import Ob, ok, viol, inconc
from ..kern import P
from . import lanes, mat

PG = '@_ZN18PoseidonGoldilocks'
HFR = {'seq': PG + '20hash_full_result_seqEPN10Goldilocks7ElementEPKS1_', 'avx': PG + '16hash_full_resultEPN10Goldilocks7ElementEPKS1_', 'avx512': PG + '23hash_full_result_avx512EPN10Goldilocks7ElementEPKS1_'}
HASH = {'seq': PG + '8hash_seqERA4_N10Goldilocks7ElementERA12_KS1_', 'avx': PG + '4hashERA4_N10Goldilocks7ElementERA12_KS1_', 'avx512': PG + '11hash_avx512ERA8_N10Goldilocks7ElementERA24_KS1_'}
LH = {'seq': PG + '15linear_hash_seqEPN10Goldilocks7ElementES2_m', 'avx': PG + '11linear_hashEPN10Goldilocks7ElementES2_m', 'avx512': PG + '18linear_hash_avx512EPN10Goldilocks7ElementES2_m'}
MT = {'seq': PG + '14merkletree_seqEPN10Goldilocks7ElementES2_mmim', 'avx': PG + '14merkletree_avxEPN10Goldilocks7ElementES2_mmim', 'avx512': PG + '17merkletree_avx512EPN10Goldilocks7ElementES2_mmim'}
MTB = {'seq': PG + '20merkletree_batch_seqEPN10Goldilocks7ElementES2_mmmim', 'avx': PG + '20merkletree_batch_avxEPN10Goldilocks7ElementES2_mmmim', 'avx512': PG + '23merkletree_batch_avx512EPN10Goldilocks7ElementES2_mmmim'}
MTW = PG + '10merkletreeEPN10Goldilocks7ElementES2_mmim'; MTBW = PG + '16merkletree_batchEPN10Goldilocks7ElementES2_mmmim'
CONST = '@_ZN27PoseidonGoldilocksConstantsL%sE'
def cfg_of(var): return 'avx512' if var == 'avx512' else 'avx2'
def mods(cfg): return ['pos_' + cfg, 'gbf_' + cfg]

def consts(w):
    g = lambda n: core.words(w.gobj[CONST % n])
    return dict(C=g('1C'), S=g('1S'), M=g('1M'), P=g('1P'), M_=g('2M_'), P_=g('2P_'))

# ---------------------------------------------------------------- C06: the permutation
def reference(K, x, add, mul):
    """independent reference: 4 full rounds, 22 partial rounds (optimised sparse form), 4 full rounds, x^7 S-box; generic over add/mul"""
    C, S, M, Pm = K['C'], K['S'], K['M'], K['P']
    pow7 = lambda v: (lambda x2: mul(mul(v, x2), mul(x2, x2)))(mul(v, v))
    def matv(x, Mx): return [functools.reduce(add, [mul(Mx[j * 12 + i], x[j]) for j in range(12)]) for i in range(12)]
    x = [add(x[i], C[i]) for i in range(12)]
    for r in range(3):
        x = [add(pow7(x[i]), C[(r + 1) * 12 + i]) for i in range(12)]; x = matv(x, M)
    x = [add(pow7(x[i]), C[48 + i]) for i in range(12)]; x = matv(x, Pm)
    for r in range(22):
        x0 = add(pow7(x[0]), C[60 + r]); x[0] = x0
        s0 = functools.reduce(add, [mul(x[i], S[23 * r + i]) for i in range(12)])
        x = [add(x[i], mul(x0, S[23 * r + 11 + i])) for i in range(12)]; x[0] = s0
    for r in range(3):
        x = [add(pow7(x[i]), C[60 + 22 + r * 12 + i]) for i in range(12)]; x = matv(x, M)
    x = [pow7(v) for v in x]; return matv(x, M)

def pyperm(K, x): return reference(K, [v % P for v in x], lambda a, b: (a + b) % P, lambda a, b: (a * b) % P)

def run_perm(ctx, var):
    """execute one implementation on symbolic states, every path; returns [(pc, outs, xs, alg, used, pre_failures)] and the world"""
    cfg = cfg_of(var); w = core.world(ctx.bdir, mods(cfg)); w.hooks = dict(w.base_hooks); w.soft_pre = True
    S = 2 if var == 'avx512' else 1; res = []
    def go(it):
        alg = fmode.Alg('uf'); fmode.install_scalar(w, alg); fmode.install_predicates(w, alg)
        if var != 'seq': fmode.install_lanes(w, alg, ctx, cfg)
        xs = [[alg.var('x%d_%d' % (s, i)) for i in range(12)] for s in range(S)]
        inp = Obj(96 * S, 'in', 64); st = Obj(96 * S, 'state', 64)
        for s in range(S):
            for i in range(12): inp.cells[i if S == 1 else (i // 4) * 8 + 4 * s + (i % 4)] = FV(xs[s][i])
        it.call(HFR[var], [Ptr(st, 0), Ptr(inp, 0)])
        outs = [[fmode.cls_of(st.cells[i if S == 1 else (i // 4) * 8 + 4 * s + (i % 4)]) for i in range(12)] for s in range(S)]
        return outs, xs, alg, sorted(w.contracts_used), list(getattr(w, 'pre_failures', []))
    paths = explore(w, go, max_paths=6, partial=True)
    return paths, w

# ---- concrete witnesses: the first half of the permutation is a bijection, so any state entering the partial rounds can be reached
def matinv(Mx):
    n = 12; A = [[Mx[j * 12 + i] % P for j in range(n)] + [1 if k == i else 0 for k in range(n)] for i in range(n)]   # out_i = sum_j M[j*12+i] x_j
    for c in range(n):
        piv = next(r for r in range(c, n) if A[r][c] % P); A[c], A[piv] = A[piv], A[c]
        iv = pow(A[c][c], -1, P); A[c] = [v * iv % P for v in A[c]]
        for r in range(n):
            if r != c and A[r][c]:
                f = A[r][c]; A[r] = [(v - f * u) % P for v, u in zip(A[r], A[c])]
    return [row[n:] for row in A]
D7 = pow(7, -1, P - 1)
def root7(v): return pow(v % P, D7, P)
def invert_first_half(K, y):
    """input state whose image after the four initial full rounds (state entering the partial rounds) is y"""
    C, M, Pm = K['C'], K['M'], K['P']; Mi = matinv(M); Pi = matinv(Pm)
    mv = lambda Ai, v: [sum(Ai[i][j] * v[j] for j in range(12)) % P for i in range(12)]
    x = mv(Pi, y); x = [root7(x[i] - C[48 + i]) for i in range(12)]
    for r in (2, 1, 0):
        x = mv(Mi, x); x = [root7(x[i] - C[(r + 1) * 12 + i]) for i in range(12)]
    return [(x[i] - C[i]) % P for i in range(12)]
def special_states(K, rng, extra_t=(), extra_a=()):
    """inputs that drive the first partial round into rare corners: x0^7 + C[60] in {0, 1, p-1, t...}; other lanes at carry / boundary values"""
    C = K['C']; out = []
    ts = [0, 1, P - 1] + list(extra_t); As = [0, 0xFFFFFFFF, 0xFFFFFFFF00000000, P - 1, 1] + list(extra_a)
    for t in ts:
        y0 = root7(t - C[60])
        for a in As[:4] + list(extra_a):
            out.append(invert_first_half(K, [y0] + [a % P] * 11))
        out.append(invert_first_half(K, [y0] + [rng.getrandbits(64) % P for _ in range(11)]))
    return out

def native_perm(ctx, var, states):
    cfg = cfg_of(var); f = core.nfn(ctx.bdir, cfg, HFR[var])
    if f is None: return None
    S = len(states); flat = [0] * (12 * S)
    for s in range(S):
        for i in range(12): flat[i if S == 1 else (i // 4) * 8 + 4 * s + (i % 4)] = states[s][i]
    ib = kern.u64buf(flat); ob_ = kern.u64buf([0] * (12 * S)); f(ctypes.byref(ob_), ctypes.byref(ib))
    return [[ob_[i if S == 1 else (i // 4) * 8 + 4 * s + (i % 4)] for i in range(12)] for s in range(S)]

def kernel_witness(ctx, var, w, alg, pf, K):
    """a callee operand assumption could not be discharged at field level: ask the solver, bit-precisely on the real kernels, for a lane
       operand that violates the assumption AND makes the kernel return the wrong class; returns lists of interesting t / a values"""
    from . import lanes as L
    cfg = cfg_of(var); n = 8 if cfg == 'avx512' else 4; T = L.table(n == 8)
    spec = T.get(pf['kernel'])
    if spec is None or not spec['pre']: return [], []
    ts = []; As = []
    Y = pf['ins'][1]
    for lane, y in enumerate(Y):
        if is_c(y) or not isinstance(y, fmode.LF) or len(y.c) != 1: continue
        (atom, co), = y.c.items()
        if atom[0] != 'M' or co != 1 or y.k != 0: continue
        A_, B_ = alg.atom_ops[atom[1]]
        k = A_.k if A_.isconst() else (B_.k if B_.isconst() else None)
        if k is None: continue
        # producer: mult kernel on (t, k); consumer: the kernel with the failed assumption on (a, product)
        mname = 'mult_avx512' if n == 8 else 'mult_avx'
        t = core.limb64('t'); a = core.bv64('a'); kk = bvv(k, 64)
        def mk(w_):
            o1 = Obj(8 * n, 'prod', 8 * n); ot = core.obj_words('t', [t] * n, 8 * n); ok_ = core.obj_words('k', [kk] * n, 8 * n)
            return [Ptr(o1, 0), Ptr(ot, 0), Ptr(ok_, 0)], (lambda ret: [core.words(o1)])
        p1 = kern.run_kernel(ctx, cfg, L.MODS[cfg], L.find(ctx, cfg, mname, T[mname], n), mk)
        prod = p1[0][2][1][0][0]
        def mk2(w_):
            oc = Obj(8 * n, 'c', 8 * n); oa = core.obj_words('a', [a] * n, 8 * n); ob_ = core.obj_words('b', [prod] * n, 8 * n)
            return [Ptr(oc, 0), Ptr(oa, 0), Ptr(ob_, 0)], (lambda ret: [core.words(oc)])
        p2 = kern.run_kernel(ctx, cfg, L.MODS[cfg], pf['fn'], mk2)
        out = p2[0][2][1][0][0]
        # is there (t, a) for which the consumer's lane specification fails on the producer's actual output representation?
        r = smt.prove(lambda tr: spec['goal'](L.Z(tr, {'a': a, 'b': prod}, [out])), assumptions=[lambda tr: tr.val(t) < P], timeout=60,
                      variants=[dict(limb_min=0, abstract=False, logic='QF_NIA', share=0.5), dict(limb_min=0, abstract=False, logic=None, share=0.5)])
        if r.status == 'sat':
            ts.append(core.limbval(r.model, 't')); As.append(r.model.get('a', 0))
        break
    return ts, As

def ob_perm(ctx, var):
    try: paths, w = run_perm(ctx, var)
    except Unsupported as e: return inconc('hash_full_result (%s): %s' % (var, e))
    K = consts(w)
    # ground facts about the tables: M_ / P_ are the transposed flattenings of M / P used by the vector code
    for nm, flat, sq in (('M_', K['M_'], K['M']), ('P_', K['P_'], K['P'])):
        if any(flat[12 * r + m] != sq[12 * m + r] for r in range(12) for m in range(12)): return viol('perm/tables', 'table %s is not the transposed layout of its 12x12 matrix' % nm, replay=dict(event='tables'))
    nq = 0; natoms = 0; used = []
    for p in paths:
        if p.status != 'ok': return viol('perm/%s/%s' % (var, getattr(p.result, 'kind', 'terminated')), 'hash_full_result (%s): %s' % (var, p.result), replay=dict(event=str(p.result)))
        outs, xs, alg, used, pfs = p.result; natoms = max(natoms, len(alg.atoms))
        if pfs:
            pf = pfs[0]; ts, As = kernel_witness(ctx, var, w, alg, pf, K)
            return confirm_perm(ctx, var, K, 'the operand assumption of Goldilocks::%s is not implied at its call site (%s)' % (pf['kernel'], pf['msg'][:80]), None, len(xs), extra_t=ts, extra_a=As)
        for s in range(len(xs)):
            ref = reference(K, xs[s], alg.add, alg.mul)
            for i in range(12):
                sv = z3.Solver(); sv.set('timeout', 60000); sv.add(p.pc); sv.add((alg.toz3(outs[s][i]) - alg.toz3(ref[i])) % P != 0); r = smt.check(sv); nq += 1
                if r == z3.unsat: continue
                return confirm_perm(ctx, var, K, 'output %d of state %d is not provably the specified permutation%s' % (i, s, ' on a data-dependent path' if p.pc else ''), sv.model() if r == z3.sat else None, len(xs))
    if len(paths) != 1 or w.explore_incomplete: return inconc('hash_full_result (%s): data-dependent control flow (%d paths explored%s), all explored paths agree with the reference' % (var, len(paths), ', exploration incomplete' if w.explore_incomplete else ''))
    return ok('%d outputs ≡ reference; %d product atoms (implementation and reference land on the same atoms); contracts: %s' % (12 * len(paths[0].result[1]), natoms, ', '.join(used)),
              sample=dict(implementation=var, states=len(paths[0].result[1]), product_atoms=natoms, queries=nq))

def confirm_perm(ctx, var, K, text, model, S, extra_t=(), extra_a=()):
    rng = ctx.rng('perm' + var); cands = []
    if model is not None:
        vals = {str(d): model[d].as_long() % P for d in model.decls() if z3.is_int_value(model[d])}
        cands.append([[vals.get('x%d_%d' % (s, i), 0) for i in range(12)] for s in range(S)])
    cands.append([[i + 12 * s for i in range(12)] for s in range(S)]); cands.append([[P - 1 - i for i in range(12)] for s in range(S)])
    cands += [[[rng.getrandbits(64) for i in range(12)] for s in range(S)] for _ in range(4)]
    sp = special_states(K, rng, extra_t, extra_a)
    cands += [[st_] * S for st_ in sp]
    for st in cands:
        got = native_perm(ctx, var, st)
        if got is None: got = interp_perm(ctx, var, st)
        for s in range(S):
            exp = pyperm(K, st[s])
            if [g % P for g in got[s]] != exp:
                i = [k for k in range(12) if got[s][k] % P != exp[k]][0]
                return viol('perm/' + var, 'hash_full_result%s: %s; native run on state %s gives word %d = %d, the specified permutation gives %d' % ({'seq': '_seq', 'avx': '', 'avx512': '_avx512'}[var], text, st[s], i, got[s][i] % P, exp[i]), replay=dict(kind='perm', var=var, states=st))
    return inconc('hash_full_result (%s): %s, but none of %d concrete candidate states (solver model, fixed, seeded random, %d states driving the first partial round into rare corners) reproduces a difference' % (var, text, len(cands), len(sp)))

def interp_perm(ctx, var, states):
    cfg = cfg_of(var); w = core.world(ctx.bdir, mods(cfg)); w.reset(); w.hooks = dict(w.base_hooks); S = len(states)
    inp = Obj(96 * S, 'in', 64); st = Obj(96 * S, 'state', 64)
    for s in range(S):
        for i in range(12): inp.cells[i if S == 1 else (i // 4) * 8 + 4 * s + (i % 4)] = states[s][i]
    Interp(w).call(HFR[var], [Ptr(st, 0), Ptr(inp, 0)])
    return [[st.cells[i if S == 1 else (i // 4) * 8 + 4 * s + (i % 4)] for i in range(12)] for s in range(S)]

# ---------------------------------------------------------------- U mode: the permutation as an uninterpreted function
IntS = z3.IntSort()
PERM = [z3.Function('PERM%d' % i, *([IntS] * 13)) for i in range(12)]
def perm(st):
    st = [z3.IntVal(x % P) if is_c(x) else x for x in st]; return [PERM[i](*st) for i in range(12)]
def T_(v, what='word'):
    if isinstance(v, FV): return v.cls
    if is_c(v): return v
    raise Unsupported('bit-level word where a field word is expected (%s)' % what)

def install_perm(w):
    """hash_full_result* summarised by PERM (justified by C06); frame: reads 12 (24) words at input, writes 12 (24) words at state"""
    w.perm_calls = 0
    def rdn(p, n):
        w._check(p, 8 * n, 'load'); out = []
        for k in range(n):
            c = p.obj.cells.get(p.off // 8 + k)
            if c is None: raise Violation('uninit-read', 'permutation input word %d (cell %d of %s) was never written' % (k, p.off // 8 + k, p.obj.name))
            out.append(T_(c))
        return out
    def wrn(p, vals):
        w._check(p, 8 * len(vals), 'store')
        for k, v in enumerate(vals): p.obj.cells[p.off // 8 + k] = FV(v)
    def h12(it, a): w.perm_calls += 1; wrn(a[0], perm(rdn(a[1], 12)))
    def h24(it, a):
        w.perm_calls += 1; x = rdn(a[1], 24)
        s0 = [x[k * 8 + i] for k in range(3) for i in range(4)]; s1 = [x[k * 8 + 4 + i] for k in range(3) for i in range(4)]
        o0 = perm(s0); o1 = perm(s1); out = [None] * 24
        for k in range(3):
            for i in range(4): out[k * 8 + i] = o0[k * 4 + i]; out[k * 8 + 4 + i] = o1[k * 4 + i]
        wrn(a[0], out)
    w.hooks[HFR['seq']] = h12; w.hooks[HFR['avx']] = h12; w.hooks[HFR['avx512']] = h24

def uworld(ctx, cfg, extra=()):
    w = core.world(ctx.bdir, mods(cfg) + list(extra)); w.hooks = dict(w.base_hooks); install_perm(w); return w

def sponge(xs):
    if len(xs) <= 4: return list(xs) + [0] * (4 - len(xs))
    cap = [0, 0, 0, 0]; i = 0
    while i < len(xs):
        blk = list(xs[i:i + 8]); blk += [0] * (8 - len(blk)); st = perm(blk + cap); cap = st[:4]; i += 8
    return cap
def zi(a): return z3.IntVal(a) if is_c(a) else a
def all_eq(pairs):
    """EUF query: is any pair different?  returns None (all equal) or index of a differing pair"""
    s = z3.Solver(); s.set('timeout', 120000); s.add(z3.Or([zi(a) != zi(b) for a, b in pairs])); r = smt.check(s)
    if r == z3.unsat: return None
    if r == z3.unknown: raise Unsupported('EUF query unknown')
    m = s.model()
    for i, (a, b) in enumerate(pairs):
        if not z3.is_true(m.eval(zi(a) == zi(b), model_completion=True)): return i
    return 0

def ob_hash4(ctx, var):
    """capacity-sized hash = first four words of the full result"""
    cfg = cfg_of(var); w = uworld(ctx, cfg, ['cen_' + cfg]); S = 2 if var == 'avx512' else 1
    xs = [z3.Int('x%d' % i) for i in range(12 * S)]; inp = Obj(96 * S, 'in', 64)
    for i, x in enumerate(xs): inp.cells[i] = FV(x)
    out = Obj(32 * S, 'out', 8)
    try: Interp(w).call(HASH[var], [Ptr(out, 0), Ptr(inp, 0)])
    except Violation as e: return viol('hash/%s/%s' % (var, e.kind), 'hash (%s): %s' % (var, e.msg), replay=dict(event=str(e)))
    if S == 1: exp = perm(xs)[:4]
    else:
        s0 = [xs[k * 8 + i] for k in range(3) for i in range(4)]; s1 = [xs[k * 8 + 4 + i] for k in range(3) for i in range(4)]; exp = perm(s0)[:4] + perm(s1)[:4]
    d = all_eq([(T_(out.cells.get(i, 0) if out.cells.get(i) is not None else z3.Int('UNWRITTEN')), exp[i]) for i in range(4 * S)])
    if d is not None: return viol('hash/' + var, 'hash (%s): output word %d is not word %d of the full permutation result' % (var, d, d), replay=dict(event='hash4'))
    return ok('capacity hash = first four words of the permutation (%d state(s))' % S, sample=dict(function='hash', variant=var))

# ---------------------------------------------------------------- C07: linear_hash
def run_lh(ctx, var, L, xs=None, concrete=False, place='disjoint'):
    """place: 'disjoint' | 'inplace' (the digest is written over the first four input words) | 'tail' (over the last four input words).
       Every path is explored (the code may test the alignment of its arguments); returns the list of (xs, outs, inp) per path, or one triple"""
    cfg = cfg_of(var); k = 2 if var == 'avx512' else 1
    w = uworld(ctx, cfg) if not concrete else core.world(ctx.bdir, mods(cfg))
    if concrete: w.reset(); w.hooks = dict(w.base_hooks)
    if xs is None: xs = [z3.Int('x%d' % i) for i in range(k * L)]
    def go(it):
        nin = k * L if place == 'disjoint' else max(k * L, 4)
        inp = Obj(8 * nin, 'input', 8)
        for i, x in enumerate(xs): inp.cells[i] = FV(x) if not concrete else x
        for i in range(len(xs), nin): inp.cells[i] = 0
        if place == 'disjoint': out = Obj(32 * k, 'output', 8); outp = Ptr(out, 0); base = 0
        else: out = inp; base = 0 if place == 'inplace' else max(L - 4, 0); outp = Ptr(inp, 8 * base)
        it.call(LH[var], [outp, Ptr(inp, 0), L])
        return xs, [out.cells.get(base + i) for i in range(4 * k)], inp
    if concrete:
        return go(Interp(w))
    paths = explore(w, go, max_paths=16)
    for p_ in paths:
        if p_.status == 'violation': raise p_.result
        if p_.status != 'ok': raise Unsupported('linear_hash path ends in %s' % (p_.result,))
    return [p_.result for p_ in paths]

def ob_lh(ctx, var, L, place='disjoint'):
    k = 2 if var == 'avx512' else 1
    try: runs = run_lh(ctx, var, L, place=place)
    except Violation as e:
        return viol('linear_hash/%s/%s' % (var, e.kind), 'linear_hash%s(size=%d): %s (input object holds exactly %d words)' % ({'seq': '_seq', 'avx': '', 'avx512': '_avx512'}[var], L, e.msg, k * L), replay=dict(kind='lh', var=var, L=L, event=str(e)))
    ptxt = {'disjoint': '', 'inplace': ' [digest written over the first four input words]', 'tail': ' [digest written over the last four input words]'}[place]
    for (xs, outs, inp) in runs:
      pairs = []
      for j in range(k):
        ref = sponge(xs[j * L:(j + 1) * L])
        for i in range(4):
            o = outs[j * 4 + i]
            if o is None: return viol('linear_hash/%s/unwritten' % var, 'linear_hash (%s, size %d)%s: digest word %d not written' % (var, L, ptxt, j * 4 + i), replay=dict(kind='lh', var=var, L=L, event='unwritten'))
            pairs.append((T_(o), ref[i]))
      d = all_eq(pairs)
      if d is not None: return confirm_lh(ctx, var, L, 'digest word %d differs from the rate-8 capacity-4 sponge%s' % (d, ptxt), place)
      if place == 'disjoint' and any(not (isinstance(c, FV) and c.cls is xs[i]) for i, c in ((i, inp.cells.get(i)) for i in range(k * L))): return viol('linear_hash/%s/input-modified' % var, 'linear_hash (%s, size %d) modified its input' % (var, L), replay=dict(kind='lh', var=var, L=L, event='input modified'))
    return ok('size %d%s: %d digest words = sponge (EUF over the permutation) on %d path(s); reads inside the %d-word input' % (L, ptxt, 4 * k, len(runs), k * L), sample=dict(function='linear_hash', variant=var, size=L, placement=place))

def pysponge(K, xs):
    if len(xs) <= 4: return [x for x in xs] + [0] * (4 - len(xs))
    cap = [0, 0, 0, 0]; i = 0
    while i < len(xs):
        blk = list(xs[i:i + 8]); blk += [0] * (8 - len(blk)); cap = pyperm(K, blk + cap)[:4]; i += 8
    return cap

def confirm_lh(ctx, var, L, text, place='disjoint'):
    cfg = cfg_of(var); k = 2 if var == 'avx512' else 1; rng = ctx.rng('lh'); w = core.world(ctx.bdir, mods(cfg)); K = consts(w)
    for trial in range(3):
        xs = [rng.getrandbits(64) % P for _ in range(k * L)] if trial else list(range(1, k * L + 1))
        f = core.nfn(ctx.bdir, cfg, LH[var])
        if f is not None:
            ib = kern.u64buf(xs + [0] * 5)
            if place == 'disjoint': ob_ = kern.u64buf([0] * (4 * k)); f(ctypes.byref(ob_), ctypes.byref(ib), ctypes.c_uint64(L)); got = list(ob_)
            else:
                base = 0 if place == 'inplace' else max(L - 4, 0)
                f(ctypes.byref(ib, 8 * base), ctypes.byref(ib), ctypes.c_uint64(L)); got = [ib[base + i] for i in range(4 * k)]
        else: got = run_lh(ctx, var, L, xs, concrete=True, place=place)[1]
        for j in range(k):
            exp = pysponge(K, xs[j * L:(j + 1) * L])
            if [g % P for g in got[4 * j:4 * j + 4]] != [e % P for e in exp]:
                return viol('linear_hash/' + var, 'linear_hash (%s, size %d): %s; native digest %s, sponge %s on input %s' % (var, L, text, got[4 * j:4 * j + 4], exp, xs[j * L:(j + 1) * L][:12]), replay=dict(kind='lh', var=var, L=L, xs=xs))
    return inconc('linear_hash (%s, size %d): %s, not reproduced concretely' % (var, L, text))

# ---------------------------------------------------------------- C08: Merkle trees
def ref_tree(leaves):
    lvl = leaves; out = [x for d in leaves for x in d]
    while len(lvl) > 1:
        nxt = [perm(lvl[2 * i] + lvl[2 * i + 1] + [0, 0, 0, 0])[:4] for i in range(len(lvl) // 2)]; out += [x for d in nxt for x in d]; lvl = nxt
    return out

def leaves_of(xs, rows, cols, dim, batch, sp=sponge):
    if batch is None: return [sp(xs[r * cols * dim:(r + 1) * cols * dim]) for r in range(rows)]
    nb = max(1, -(-cols // batch)) if cols > 0 else 1; leaves = []
    for r in range(rows):
        row = xs[r * cols * dim:(r + 1) * cols * dim]; dg = []
        for j in range(nb): dg += sp(row[j * batch * dim:min((j + 1) * batch, cols) * dim])
        leaves.append(sp(dg))
    return leaves

def tree_elems(ctx, w, rows):
    fn = '@_ZN20MerklehashGoldilocks18getTreeNumElementsEm'
    if fn in w.funcs: return Interp(w).call(fn, [rows])
    return None

def ob_tree(ctx, var, rows, cols, dim, batch, nthreads, wrapper=False):
    cfg = cfg_of(var); w = uworld(ctx, cfg, ['cen_' + cfg] if wrapper else []); n = rows * cols * dim
    xs = [z3.Int('x%d' % i) for i in range(n)]; inp = Obj(8 * n, 'input', 8)
    for i, x in enumerate(xs): inp.cells[i] = FV(x)
    nel = 4 * (2 * rows - 1); tree = Obj(8 * nel, 'tree', 8)
    name = ('merkletree_batch' if batch is not None else 'merkletree') + ('' if wrapper else {'seq': '_seq', 'avx': '_avx', 'avx512': '_avx512'}[var])
    desc = '%s(num_cols=%d, num_rows=%d%s, nThreads=%d, dim=%d)%s' % (name, cols, rows, (', batch_size=%d' % batch) if batch is not None else '', nthreads, dim, (' [build %s]' % cfg) if wrapper else '')
    rep = dict(kind='tree', var=var, rows=rows, cols=cols, dim=dim, batch=batch, nthreads=nthreads, wrapper=wrapper)
    try:
        it = Interp(w)
        if batch is None: it.call(MTW if wrapper else MT[var], [Ptr(tree, 0), Ptr(inp, 0), cols, rows, nthreads, dim])
        else: it.call(MTBW if wrapper else MTB[var], [Ptr(tree, 0), Ptr(inp, 0), cols, rows, batch, nthreads, dim])
    except Violation as e:
        rep['event'] = str(e); nat = ''
        try:
            res = native_tree(ctx, rep, list(range(1, n + 1)))
            if res is not None:
                if res[0] != 'ok': nat = ' [native run ended with %s %s]' % res
                else:
                    over = [i for i in range(nel, len(res[1])) if res[1][i] != 0xCDCDCDCDCDCDCDCD]
                    nat = ' [native run: %d word(s) written past the %d-word tree buffer]' % (len(over), nel) if over else ' [native run: no write past the tree buffer observed; reads are not observable natively]'
        except Exception as ex: nat = ' [native replay failed: %s]' % ex
        e.msg += nat
        return viol('tree/%s/%s' % (var, e.kind), '%s: %s (input holds exactly %d words, tree buffer exactly getTreeNumElements(%d) = %d words)' % (desc, e.msg, n, rows, nel), replay=rep)
    ref = ref_tree(leaves_of(xs, rows, cols, dim, batch))
    pairs = []
    for i in range(nel):
        c = tree.cells.get(i)
        if c is None: rep['event'] = 'unwritten'; return viol('tree/%s/unwritten' % var, '%s: tree word %d never written' % (desc, i), replay=rep)
        pairs.append((T_(c), ref[i]))
    d = all_eq(pairs)
    if d is not None: return confirm_tree(ctx, rep, desc, 'tree word %d differs from the binary Poseidon tree over the row digests' % d)
    return ok('%d tree words = reference tree (EUF); %d permutation calls' % (nel, w.perm_calls), sample=dict(call=desc, tree_words=nel, permutations=w.perm_calls))

def native_tree(ctx, rep, xs):
    var = rep['var']; cfg = cfg_of(var); rows, cols, dim, batch = rep['rows'], rep['cols'], rep['dim'], rep['batch']
    nel = 4 * (2 * rows - 1); pad = 64
    def body():
        fn = (MTW if batch is None else MTBW) if rep.get('wrapper') else (MT[var] if batch is None else MTB[var])
        f = core.nfn(ctx.bdir, cfg, fn)
        ib = kern.u64buf(list(xs) + [0xABABABABABABABAB] * pad); tb = kern.u64buf([0xCDCDCDCDCDCDCDCD] * (nel + pad))
        args = [ctypes.byref(tb), ctypes.byref(ib), ctypes.c_uint64(cols), ctypes.c_uint64(rows)] + ([ctypes.c_uint64(batch)] if batch is not None else []) + [ctypes.c_int(rep['nthreads']), ctypes.c_uint64(dim)]
        f(*args); return list(tb)
    if core.native(ctx.bdir, cfg) is None: return None
    return core.forked(body)

def confirm_tree(ctx, rep, desc, text):
    var = rep['var']; cfg = cfg_of(var); rows, cols, dim, batch = rep['rows'], rep['cols'], rep['dim'], rep['batch']
    w = core.world(ctx.bdir, mods(cfg)); K = consts(w); rng = ctx.rng('tree'); nel = 4 * (2 * rows - 1)
    for trial in range(2):
        xs = [rng.getrandbits(64) % P for _ in range(rows * cols * dim)] if trial else list(range(1, rows * cols * dim + 1))
        res = native_tree(ctx, rep, xs)
        if res is None: break
        if res[0] != 'ok': rep['xs'] = xs; return viol('tree/' + var, '%s: %s; native run ended with %s %s' % (desc, text, res[0], res[1]), replay=rep)
        got = res[1]
        leaves = leaves_of(xs, rows, cols, dim, batch, sp=lambda v: pysponge(K, v)); lvl = leaves; exp = [x for d in leaves for x in d]
        while len(lvl) > 1:
            nxt = [pyperm(K, lvl[2 * i] + lvl[2 * i + 1] + [0, 0, 0, 0])[:4] for i in range(len(lvl) // 2)]; exp += [x for d in nxt for x in d]; lvl = nxt
        bad = [i for i in range(nel) if got[i] % P != exp[i] % P]
        over = [i for i in range(nel, len(got)) if got[i] != 0xCDCDCDCDCDCDCDCD]
        if bad or over:
            rep['xs'] = xs
            return viol('tree/' + var, '%s: %s; native run: %s' % (desc, text, ('tree word %d = %d, reference %d' % (bad[0], got[bad[0]] % P, exp[bad[0]] % P)) if bad else ('%d words written past the tree buffer' % len(over))), replay=rep)
    return inconc('%s: %s, not reproduced concretely' % (desc, text))

def replay(ctx, d):
    if d.get('kind') == 'perm':
        var = d['var']; w = core.world(ctx.bdir, mods(cfg_of(var))); K = consts(w); got = native_perm(ctx, var, d['states']) or interp_perm(ctx, var, d['states'])
        for s, st in enumerate(d['states']):
            if [g % P for g in got[s]] != pyperm(K, st): return True, 'state %s -> %s, specified %s' % (st, [g % P for g in got[s]], pyperm(K, st))
        return False, 'agrees'
    if d.get('kind') == 'lh' and d.get('xs') is not None:
        r = confirm_lh(ctx, d['var'], d['L'], 'replay'); return r['status'] == 'violation', r['detail']
    if d.get('kind') == 'tree':
        rows, cols, dim = d['rows'], d['cols'], d['dim']; xs = d.get('xs') or list(range(1, rows * cols * dim + 1))
        res = native_tree(ctx, d, xs)
        if res is None: return True, 'no native AVX512: %s' % d.get('event')
        if res[0] != 'ok': return True, 'native run ended with %s %s' % res
        nel = 4 * (2 * rows - 1); over = [i for i in range(nel, len(res[1])) if res[1][i] != 0xCDCDCDCDCDCDCDCD]
        if over: return True, '%d words written past the %d-word tree buffer (first at index %d)' % (len(over), nel, over[0])
        r = confirm_tree(ctx, d, 'replay', 'replay'); return r['status'] == 'violation', r['detail']
    return True, str(d.get('event'))
