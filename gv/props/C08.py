# C08 — Merkle tree buffer and root are the binary Poseidon tree over row digests.
import z3
from . import poseidon
from .. import core
from ..interp import *
from ..runner import Ob, ok, viol, inconc
META = dict(
    functions=['PoseidonGoldilocks::merkletree_seq / _avx / _avx512', 'merkletree_batch_seq / _avx / _avx512', 'merkletree / merkletree_batch (default wrappers, both build configurations)', 'MerklehashGoldilocks::getTreeNumElements', 'MerklehashGoldilocks::root (both overloads)', 'linear_hash* and hash* (interpreted)'],
    bounds={'quick': 'num_rows in {1,2,4,8,16,32,64}; num_cols 0..9 (16 rows: cols 0,1,5,9; 32 and 64 rows: cols 0,1,9, dim 1); dim 1..2; batch_size in {1, 2, 3, num_cols, num_cols+1}; nThreads in {0 (default), 1, 3}; all input matrices', 'thorough': 'num_rows up to 32, num_cols 0..17, dim 1..3, batch_size 1..num_cols+1'},
    outside=['shapes above the bound', 'parallel execution (C12)'], stubs=['omp_get_max_threads returns 4'],
    assumptions=['the permutation is the uninterpreted function PERM (C06); the input holds exactly rows*cols*dim words and the tree buffer exactly getTreeNumElements(rows) words, so over-reads / over-writes are events'],
    trusted_base=['reference tree gv/props/poseidon.py:ref_tree / leaves_of'])
def shapes(ctx):
    R = (1, 2, 4, 8, 16, 32, 64, 128) if ctx.thorough else (1, 2, 4, 8, 16, 32, 64); Cm = 17 if ctx.thorough else 9; D = (1, 2, 3) if ctx.thorough else (1, 2); out = []
    for rows in R:
        for cols in range(0, Cm + 1):
            if not ctx.thorough and cols in (6, 7) and rows > 2: continue
            if not ctx.thorough and rows == 16 and cols not in (0, 1, 5, 9): continue
            if rows >= 32 and cols not in (0, 1, 9): continue
            for dim in D:
                if dim == 3 and cols > 6: continue
                if rows >= 32 and dim > 1: continue
                bs = [None] + (sorted(set([1, 2, 3, max(cols, 1), cols + 1])) if not ctx.thorough else list(range(1, cols + 2)))
                for b in bs:
                    if ctx.thorough and b is not None and rows > 4 and b not in (1, 2, cols, cols + 1): continue
                    out.append((rows, cols, dim, b))
    return out
def ob_numel(ctx):
    """getTreeNumElements(rows) = 4(2 rows - 1) for all rows in [1, 2^60]; root = last four elements"""
    from .. import kern, smt
    w = core.world(ctx.bdir, ['cen_avx2', 'gbf_avx2']); w.hooks = dict(w.base_hooks); it = Interp(w)
    fn = '@_ZN20MerklehashGoldilocks18getTreeNumElementsEm'; d = z3.BitVec('degree', 64)
    r = it.call(fn, [d])
    res = smt.prove(lambda tr: tr.val(r) == 4 * (2 * tr.val(d) - 1), assumptions=[lambda tr: z3.And(tr.val(d) >= 1, tr.val(d) <= 2**60)], timeout=30)
    if res.status != 'unsat': return viol('numel', 'getTreeNumElements wrong for degree %s' % res.model, replay=dict(event='numel')) if res.status == 'sat' else inconc(res.info)
    for rfn in ('@_ZN20MerklehashGoldilocks4rootEPN10Goldilocks7ElementES2_m', '@_ZN20MerklehashGoldilocks4rootERA4_N10Goldilocks7ElementEPS1_m'):
        if rfn not in w.funcs: return inconc('root overload not found: ' + rfn)
        w.reset(); w.hooks = dict(w.base_hooks); it = Interp(w)
        tree = core.obj_words('tree', [z3.BitVec('t%d' % i, 64) for i in range(12)], 8); root = Obj(32, 'root', 8)
        it.call(rfn, [Ptr(root, 0), Ptr(tree, 0), 12])
        if not all(z3.eq(root.cells[i], tree.cells[8 + i]) for i in range(4)): return viol('root', 'root is not the last four tree elements', replay=dict(event='root'))
    return ok('getTreeNumElements(r) = 4(2r-1) for 1 <= r <= 2^60; root copies the last four elements', sample=dict(function='getTreeNumElements/root'))
def obligations(ctx):
    obs = [Ob('numel+root', ob_numel)]
    for (rows, cols, dim, b) in shapes(ctx):
        for var in ('seq', 'avx', 'avx512'):
            nt = (0, 1, 3)[(rows + cols + dim) % 3]
            obs.append(Ob('%s/r%d/c%d/d%d/%s' % (var, rows, cols, dim, 'plain' if b is None else 'b%d' % b), poseidon.ob_tree, (var, rows, cols, dim, b, nt), weight=rows * (cols + 1) * dim))
    for var in ('avx', 'avx512'):   # default wrappers in both build configurations
        for (rows, cols, dim, b) in [(1, 3, 1, None), (4, 5, 2, None), (2, 9, 1, 2), (8, 3, 1, 4), (1, 0, 1, 1), (4, 0, 2, None)]:
            obs.append(Ob('wrapper-%s/r%d/c%d/d%d/%s' % (var, rows, cols, dim, 'plain' if b is None else 'b%d' % b), poseidon.ob_tree, (var, rows, cols, dim, b, 0), dict(wrapper=True)))
    return obs
def validate(ctx):
    rng = ctx.rng('C08'); n = 0; bad = []
    for var in ('seq', 'avx', 'avx512'):
        for (rows, cols, dim, b) in ((2, 3, 1, None), (4, 5, 2, 2)):
            rep = dict(var=var, rows=rows, cols=cols, dim=dim, batch=b, nthreads=1); xs = [rng.getrandbits(64) for _ in range(rows * cols * dim)]
            res = poseidon.native_tree(ctx, rep, xs); n += 1
            if res is None or res[0] != 'ok': continue
            cfg = poseidon.cfg_of(var); w = core.world(ctx.bdir, poseidon.mods(cfg)); w.reset(); w.hooks = dict(w.base_hooks)
            inp = core.obj_words('in', xs, 8); tree = Obj(32 * (2 * rows - 1), 'tree', 8)
            if b is None: Interp(w).call(poseidon.MT[var], [Ptr(tree, 0), Ptr(inp, 0), cols, rows, 1, dim])
            else: Interp(w).call(poseidon.MTB[var], [Ptr(tree, 0), Ptr(inp, 0), cols, rows, b, 1, dim])
            if core.words(tree) != res[1][:4 * (2 * rows - 1)]: bad.append('merkletree %s %s: native and interpreter differ' % (var, (rows, cols, dim, b)))
    return {'vectors': n, 'mismatches': bad}
def replay(ctx, d): return poseidon.replay(ctx, d)
