# C20 — GPU field arithmetic and tables implement the same field as the CPU.
#  gl64_t.cuh is compiled device-only with clang's CUDA front end (sm_60 and sm_70; mechanical text patch of a scratch copy, diff in evidence);
#  the PTX inline asm is interpreted (gv/ptx.py); mul is proved along its real call graph: multiplication phase exact, reduce(uint32_t*)
#  congruent for every 128-bit value, reduce() canonical.  Tables are parsed from ntt_goldilocks.cuh and handed to the solver as ground facts.
import z3, re, os, json
from .. import core, smt, kern, build, ptx
from ..interp import *
from ..runner import Ob, ok, viol, inconc
from ..kern import P

ARCHS = ('sm_60', 'sm_70')
META = dict(
    functions=['gl64_t::operator+=, operator-=, cneg / unary -, operator*= (gl64_t and uint32_t), sqr, mul(const gl64_t&), mul(uint32_t), reduce(uint32_t*), reduce()/to(), binary + - *; both __CUDA_ARCH__ >= 700 and < 700 paths',
               'device tables omegas, omegas_inv, domain_size_inverse (33 rows each) against the CPU table Goldilocks::W from the IR'],
    bounds={'quick': 'none: loop-free; canonical inputs for the fully-reduced configuration; multiplication additionally for arbitrary 64-bit multiplicands; all 33 table rows', 'thorough': 'same'},
    outside=['every __global__ kernel, dot_product, reciprocal, heptaroot, operator^, shifts', 'nvcc\'s own code generation (the IR comes from clang\'s CUDA front end)', 'the GL64_PARTIALLY_REDUCED / GL64_NO_REDUCTION_KLUDGE configurations (not selected by the build)',
             'the text patch of the scratch copy: %top/%flag/%set_z/%sel_a escaped as %%.. in asm strings and a missing comma in operator>>= (coverage.cuda_patch)'],
    stubs=[], assumptions=['inputs canonical (< p) unless stated'],
    trusted_base=['PTX semantics of the mnemonics in gv/ptx.py (no native GPU: replay is interpreter-only)', 'clang NVPTX lowering of the CUDA source'])

def world(ctx, arch):
    w = core.world(ctx.bdir, ['gl64_' + arch], gmp=False); w.hooks = dict(w.base_hooks); return w
def interp(w):
    it = Interp(w); it.asm = ptx.PTX(); return it

def canon(tr, *xs): return [tr.val(x) < P for x in xs]

def simple_ops():
    """wrapper name -> (arity kinds, spec, precondition on canonical inputs)"""
    return {
        'w_add': (['a', 'b'], lambda A, B: A + B), 'w_sub': (['a', 'b'], lambda A, B: A - B), 'w_neg': (['a'], lambda A: -A),
        'w_binadd': (['a', 'b'], lambda A, B: A + B), 'w_binsub': (['a', 'b'], lambda A, B: A - B), 'w_to': (['a'], lambda A: A),
    }

def ob_simple(ctx, arch, name):
    kinds, spec = simple_ops()[name]
    w = world(ctx, arch); it = interp(w)
    a = core.bv64('a'); b = core.bv64('b'); args = [a, b][:len(kinds)]
    paths = []
    def go(it_):
        it_.asm = ptx.PTX(); return it_.call('@' + name, list(args))
    for p in explore(w, go):
        if p.status != 'ok': return viol('%s/%s/event' % (arch, name), '%s %s: %s' % (arch, name, p.result), replay=dict(event=str(p.result)))
        r = p.result
        def goal(tr):
            vals = [tr.val(x) for x in args]
            return z3.And((tr.val(r) - spec(*vals)) % P == 0, tr.val(r) < P)
        pre = [lambda tr: z3.And(*canon(tr, *args))] if name != 'w_to' else []
        res = smt.prove(goal, assumptions=pre + list(p.pc), timeout=60)
        if res.status == 'sat': return confirm(ctx, arch, name, res.model, spec, kinds)
        if res.status != 'unsat': return inconc('%s %s: %s' % (arch, name, res.info))
    return ok('canonical result of the operation for all canonical operands', sample=dict(arch=arch, op=name))

def confirm(ctx, arch, name, model, spec, kinds):
    """no GPU here: the counterexample is re-executed in the interpreter's concrete mode"""
    vals = [model.get(k, 0) for k in kinds]
    w = world(ctx, arch); it = interp(w); got = it.call('@' + name, vals); exp = spec(*vals) % P
    if got != exp: return viol('%s/%s' % (arch, name), '%s %s(%s) = %#x, expected canonical %#x (concrete re-execution of the PTX in the interpreter; no GPU available)' % (arch, name, ', '.join(hex(v) for v in vals), got, exp), replay=dict(arch=arch, name=name, vals=vals))
    return inconc('ENCODING-MISMATCH: %s %s model %s does not reproduce under concrete evaluation' % (arch, name, vals))

def ob_cneg(ctx, arch):
    w = world(ctx, arch); a = core.bv64('a'); f = z3.BitVec('flag', 32)
    def go(it_):
        it_.asm = ptx.PTX(); return it_.call('@w_cneg', [a, f])
    for p in explore(w, go):
        if p.status != 'ok': return viol('%s/cneg/event' % arch, str(p.result), replay=dict(event=str(p.result)))
        r = p.result
        def goal(tr):
            A = tr.val(a); fl = tr.val(f) != 0
            return z3.And(tr.val(r) < P, z3.If(fl, (tr.val(r) + A) % P == 0, tr.val(r) == A))
        res = smt.prove(goal, assumptions=[lambda tr: tr.val(a) < P] + list(p.pc), timeout=60)
        if res.status == 'sat': return viol('%s/cneg' % arch, 'cneg wrong for %s' % res.model, replay=dict(arch=arch, name='w_cneg', vals=[res.model.get('a', 0), res.model.get('flag', 0)]))
        if res.status != 'unsat': return inconc(res.info)
    return ok('cneg(a, flag) = flag ? -a : a, canonical, for all canonical a and all flag words', sample=dict(arch=arch, op='cneg'))

NIA = [dict(limb_min=0, abstract=True, logic=None, share=0.2), dict(limb_min=0, abstract=False, logic='QF_NIA', share=0.2), dict(limb_min=128, abstract=True, logic=None, share=0.15),
       dict(limb_min=128, abstract=False, logic='QF_NIA', share=0.15), dict(limb_min=0, abstract=False, logic=None, share=0.15), dict(limb_min=128, abstract=False, logic=None, share=0.15)]

def ob_mul_phase(ctx, arch):
    """gl64_t::mul(const gl64_t&): the four words handed to reduce(uint32_t*) are exactly a·b, for ALL 64-bit a, b (partially reduced inputs included)"""
    w = world(ctx, arch); cap = {}
    def hook(it_, a): cap['t'] = [a[1].obj.cells.get(a[1].off // 8), a[1].obj.cells.get(a[1].off // 8 + 1)]; return None
    w.hooks['@_ZN6gl64_t6reduceEPj'] = hook
    A = core.limb64('a'); B = core.limb64('b')
    ta = core.obj_words('a', [A], 8); tb = core.obj_words('b', [B], 8)
    it = interp(w); it.call('@_ZN6gl64_t3mulERKS_', [Ptr(ta, 0), Ptr(tb, 0)])
    if 't' not in cap: return inconc('mul(const gl64_t&) does not hand its product to reduce(uint32_t*): the two-phase argument does not apply to this code (the products are then judged by the end-to-end obligations)')
    lo, hi = cap['t']
    res = smt.prove(lambda tr: tr.val(tobv(hi, 64)) * 2**64 + tr.val(tobv(lo, 64)) == tr.prod(A, B)[0], timeout=240 if ctx.thorough else 120, variants=NIA)
    if res.status == 'unsat': return ok('temp[0..3] = a·b exactly for all 2^128 operand pairs; %s' % res.variant, sample=dict(arch=arch, op='mul phase'))
    if res.status == 'sat':
        a = core.limbval(res.model, 'a'); b = core.limbval(res.model, 'b')
        w2 = world(ctx, arch); cap2 = {}
        w2.hooks['@_ZN6gl64_t6reduceEPj'] = lambda it_, x: cap2.__setitem__('t', [x[1].obj.cells.get(0), x[1].obj.cells.get(1)])
        interp(w2).call('@_ZN6gl64_t3mulERKS_', [Ptr(core.obj_words('a', [a], 8), 0), Ptr(core.obj_words('b', [b], 8), 0)])
        got = cap2['t'][0] + (cap2['t'][1] << 64)
        if got != a * b: return viol('%s/mul-phase' % arch, '%s gl64_t::mul(%#x, %#x): 128-bit product handed to reduce is %#x, expected %#x' % (arch, a, b, got, a * b), replay=dict(arch=arch, name='mulphase', vals=[a, b]))
        return inconc('ENCODING-MISMATCH mul phase %#x %#x' % (a, b))
    return inconc('%s mul phase: %s' % (arch, res.info))

def ob_reduce128(ctx, arch):
    """gl64_t::reduce(uint32_t temp[4]): val ≡ temp (mod p) for EVERY 128-bit temp"""
    w = world(ctx, arch); t = [z3.BitVec('t%d' % i, 32) for i in range(4)]
    tmp = Obj(16, 'temp', 8); tmp.cells[0] = z3.Concat(t[1], t[0]); tmp.cells[1] = z3.Concat(t[3], t[2]); this = Obj(8, 'this', 8)
    it = interp(w); it.call('@_ZN6gl64_t6reduceEPj', [Ptr(this, 0), Ptr(tmp, 0)])
    v = this.cells.get(0)
    if v is None: return viol('%s/reduce/unwritten' % arch, 'reduce does not write val', replay=dict(event='unwritten'))
    res = smt.prove(lambda tr: (tr.val(tobv(v, 64)) - sum(tr.val(t[i]) * 2**(32 * i) for i in range(4))) % P == 0, timeout=240 if ctx.thorough else 120, variants=NIA)
    if res.status == 'unsat': return ok('val ≡ temp[3..0] (mod p) for all 2^128 values; %s' % res.variant, sample=dict(arch=arch, op='reduce(uint32_t*)'))
    if res.status == 'sat':
        tv = [res.model.get('t%d' % i, 0) for i in range(4)]
        w2 = world(ctx, arch); tmp2 = Obj(16, 'temp', 8); tmp2.cells[0] = tv[0] | (tv[1] << 32); tmp2.cells[1] = tv[2] | (tv[3] << 32); th = Obj(8, 'this', 8)
        interp(w2).call('@_ZN6gl64_t6reduceEPj', [Ptr(th, 0), Ptr(tmp2, 0)]); T = sum(tv[i] << (32 * i) for i in range(4))
        if th.cells[0] % P != T % P: return viol('%s/reduce128' % arch, '%s reduce(temp=%#x) = %#x, not congruent to temp mod p' % (arch, T, th.cells[0]), replay=dict(arch=arch, name='reduce128', vals=tv))
        return inconc('ENCODING-MISMATCH reduce128 %s' % tv)
    return inconc('%s reduce(uint32_t*): %s' % (arch, res.info))

def ob_mul_compose(ctx, arch, name):
    """operator*=, sqr, binary *: executed with mul's callee reduce(uint32_t*) summarised by its proved contract; result canonical and ≡ a·b"""
    w = world(ctx, arch); asm = []
    def mulh(it_, a):
        # contract of gl64_t::mul(const gl64_t&) = mul-phase (temp = a·b exactly) composed with reduce(uint32_t*) (val ≡ temp), both proved in this run
        x = tobv(w.load(a[0], I(64)), 64); y = tobv(w.load(a[1], I(64)), 64)
        o = z3.BitVec('mulout%d' % len(asm), 64); w.store(a[0], I(64), o)
        asm.append(lambda tr: (tr.val(o) - tr.prod(x, y)[0]) % P == 0); return None
    w.hooks['@_ZN6gl64_t3mulERKS_'] = mulh
    A = core.limb64('a'); B = core.limb64('b'); unary = name == 'w_sqr'
    it = interp(w); r = it.call('@' + name, [A] if unary else [A, B])
    B2 = A if unary else B
    pre = []    # "either multiplication variant can handle partially reduced inputs": no canonicity assumption on the multiplicands
    res = smt.prove(lambda tr: z3.And((tr.val(tobv(r, 64)) - tr.prod(A, B2)[0]) % P == 0, tr.val(tobv(r, 64)) < P), assumptions=asm + list(it.pc), timeout=240 if ctx.thorough else 120, variants=NIA)
    if res.status == 'unknown':
        # the routine does not go through mul(const gl64_t&) (e.g. a dedicated squaring): summarise reduce(uint32_t*) instead, by the contract that
        # ob_reduce128 proves in this run (val ≡ temp mod p) plus canonicity of its result if that can be proved here
        r2 = compose_over_reduce(ctx, arch, name, unary)
        if r2 is not None: return r2
    if res.status == 'unsat': return ok('canonical a·b for all 64-bit (also partially reduced) multiplicands, over the contract of mul(const gl64_t&) (= mul phase ∘ reduce(uint32_t*)); %s' % res.variant, sample=dict(arch=arch, op=name))
    if res.status == 'sat':
        a = core.limbval(res.model, 'a'); b = a if unary else core.limbval(res.model, 'b')
        got = interp(world(ctx, arch)).call('@' + name, [a] if unary else [a, b])
        if got != a * b % P: return viol('%s/%s' % (arch, name), '%s %s(%#x, %#x) = %#x, expected %#x (concrete re-execution in the interpreter)' % (arch, name, a, b, got, a * b % P), replay=dict(arch=arch, name=name, vals=[a] if unary else [a, b]))
        return inconc('the reduce contract admits a spurious model; concrete re-execution agrees')
    return inconc('%s %s: %s' % (arch, name, res.info))

def reduce_canonical(ctx, arch):
    w = world(ctx, arch); t = [z3.BitVec('t%d' % i, 32) for i in range(4)]
    tmp = Obj(16, 'temp', 8); tmp.cells[0] = z3.Concat(t[1], t[0]); tmp.cells[1] = z3.Concat(t[3], t[2]); this = Obj(8, 'this', 8)
    interp(w).call('@_ZN6gl64_t6reduceEPj', [Ptr(this, 0), Ptr(tmp, 0)]); v = this.cells.get(0)
    if v is None: return False
    return smt.prove(lambda tr: tr.val(tobv(v, 64)) < P, timeout=60, variants=NIA).status == 'unsat'

def compose_over_reduce(ctx, arch, name, unary):
    canon_ok = reduce_canonical(ctx, arch)
    for mkw in (core.limb64, core.bv64):
        r_ = _compose_over_reduce(ctx, arch, name, unary, canon_ok, mkw)
        if r_ is not None: return r_
    return None
def _compose_over_reduce(ctx, arch, name, unary, canon_ok, mkw):
    w = world(ctx, arch); asm = []; prods = []
    def redh(it_, a):
        lo = tobv(a[1].obj.cells.get(a[1].off // 8), 64); hi = tobv(a[1].obj.cells.get(a[1].off // 8 + 1), 64)
        o = z3.BitVec('redout%d' % len(asm), 64); w.store(a[0], I(64), o)
        asm.append(lambda tr: z3.And((tr.val(o) - (tr.val(hi) * 2**64 + tr.val(lo))) % P == 0, (tr.val(o) < P) if canon_ok else z3.BoolVal(True))); return None
    w.hooks['@_ZN6gl64_t6reduceEPj'] = redh
    A = mkw('a'); B = mkw('b'); it = interp(w)
    try: r = it.call('@' + name, [A] if unary else [A, B])
    except Unsupported as e: return None
    if not asm: return None
    B2 = A if unary else B
    res = smt.prove(lambda tr: z3.And((tr.val(tobv(r, 64)) - tr.prod(A, B2)[0]) % P == 0, tr.val(tobv(r, 64)) < P), assumptions=asm + list(it.pc), timeout=240 if ctx.thorough else 120, variants=NIA)
    if res.status == 'unsat': return ok('canonical a·b for all 64-bit multiplicands, over the contract of reduce(uint32_t*) (val ≡ temp mod p%s; proved in this run) with the 128-bit product computed by the routine itself; %s' % (', val canonical' if canon_ok else '', res.variant), sample=dict(arch=arch, op=name, mode='over reduce'))
    return None

def ob_mul32(ctx, arch):
    w = world(ctx, arch); A = core.limb64('a'); b = z3.BitVec('b32', 32)
    it = interp(w); r = it.call('@w_mul32', [A, b])
    res = smt.prove(lambda tr: z3.And((tr.val(tobv(r, 64)) - tr.prod(A, z3.ZeroExt(32, b))[0]) % P == 0, tr.val(tobv(r, 64)) < P), assumptions=list(it.pc), timeout=240 if ctx.thorough else 120, variants=NIA)
    if res.status == 'unsat': return ok('canonical a·b for all 64-bit a and all 32-bit words b; %s' % res.variant, sample=dict(arch=arch, op='mul by uint32_t'))
    if res.status == 'sat':
        a = core.limbval(res.model, 'a'); bv_ = res.model.get('b32', 0); got = interp(world(ctx, arch)).call('@w_mul32', [a, bv_])
        if got != a * bv_ % P: return viol('%s/mul32' % arch, '%s a*=uint32: (%#x, %#x) = %#x expected %#x' % (arch, a, bv_, got, a * bv_ % P), replay=dict(arch=arch, name='w_mul32', vals=[a, bv_]))
        return inconc('ENCODING-MISMATCH mul32')
    return inconc('%s mul32: %s' % (arch, res.info))

def parse_table(text, name):
    m = re.search(r'%s\s*\[\s*(\d+)\s*\]\s*=\s*\{(.*?)\};' % name, text, re.S)
    if not m: raise Unsupported('table %s not found' % name)
    vals = [int(x.rstrip('ULul'), 0) for x in re.findall(r'(0x[0-9a-fA-F]+|\d+)(?:ULL|UL|U|ull)?', re.sub(r'//[^\n]*', '', m.group(2)))]
    return int(m.group(1)), vals

def ob_tables(ctx):
    src = os.path.join(build.SRC, 'ntt_goldilocks.cuh'); text = open(src).read()
    w = core.world(ctx.bdir, ['gbf_avx2']); W = core.words(w.gobj['@_ZN10Goldilocks1WE'])
    tabs = {}
    for nm in ('omegas', 'omegas_inv', 'domain_size_inverse'):
        n, vals = parse_table(text, nm)
        if n != 33 or len(vals) != 33: return viol('tables/%s/size' % nm, 'device table %s has %d declared / %d parsed rows, expected 33' % (nm, n, len(vals)), replay=dict(event='size'))
        tabs[nm] = vals
    if len(W) != 33: return inconc('CPU table has %d rows' % len(W))
    # 99 ground facts, decided by the solver on integers
    facts = []
    for i in range(33):
        facts.append(('omegas[%d] = W[%d]' % (i, i), z3.IntVal(tabs['omegas'][i]) % P == z3.IntVal(W[i]) % P))
        facts.append(('omegas[%d]·omegas_inv[%d] ≡ 1' % (i, i), (z3.IntVal(tabs['omegas'][i]) * z3.IntVal(tabs['omegas_inv'][i])) % P == 1))
        facts.append(('2^%d·domain_size_inverse[%d] ≡ 1' % (i, i), (z3.IntVal(2**i) * z3.IntVal(tabs['domain_size_inverse'][i])) % P == 1))
        facts.append(('rows %d canonical' % i, z3.And([z3.IntVal(tabs[t][i]) < P for t in tabs])))
    s = z3.Solver(); s.add(z3.Not(z3.And([f for _, f in facts])))
    if smt.check(s) == z3.unsat: return ok('%d ground facts: omegas = CPU roots, omegas_inv their inverses, domain_size_inverse = 2^-i, all canonical, 33 rows' % len(facts), sample=dict(tables=list(tabs), rows=33))
    for lab, f in facts:
        s = z3.Solver(); s.add(z3.Not(f))
        if s.check() == z3.sat: return viol('tables', 'device table fact fails: %s' % lab, replay=dict(event=lab))
    return inconc('tables')

def obligations(ctx):
    obs = [Ob('tables', ob_tables)]
    meta = json.load(open(os.path.join(ctx.bdir, 'meta.json')))
    if meta.get('cuda_errors'):
        return obs + [Ob('cuda-ir', lambda c: inconc('gl64_t.cuh did not compile with clang CUDA: %s' % meta['cuda_errors'][0][-400:]))]
    for arch in ARCHS:
        for nm in simple_ops(): obs.append(Ob('%s/%s' % (arch, nm), ob_simple, (arch, nm)))
        obs.append(Ob('%s/cneg' % arch, ob_cneg, (arch,)))
        obs.append(Ob('%s/mul-phase' % arch, ob_mul_phase, (arch,), weight=10)); obs.append(Ob('%s/reduce128' % arch, ob_reduce128, (arch,), weight=10))
        for nm in ('w_mul', 'w_sqr', 'w_binmul'): obs.append(Ob('%s/%s' % (arch, nm), ob_mul_compose, (arch, nm), weight=5))
        obs.append(Ob('%s/mul32' % arch, ob_mul32, (arch,), weight=5))
    return obs

def extra_evidence(ctx):
    try: return dict(cuda_patch=json.load(open(os.path.join(ctx.bdir, 'cu', 'patch_diff.json'))))
    except Exception: return {}

def validate(ctx):
    """PTX has no native side here: the interpreter's concrete mode is checked against python integers and against the CPU field ops"""
    rng = ctx.rng('C20'); n = 0; bad = []
    V = [0, 1, P - 1, 2**32, 2**32 - 1, 0xFFFFFFFF00000000, 12345, (P - 1) // 2]
    for arch in ARCHS:
        w = world(ctx, arch)
        for _ in range(24):
            a = rng.choice(V + [rng.getrandbits(64) % P]); b = rng.choice(V + [rng.getrandbits(64) % P])
            for nm, exp in (('w_add', (a + b) % P), ('w_sub', (a - b) % P), ('w_mul', a * b % P), ('w_neg', -a % P), ('w_sqr', a * a % P)):
                w.reset(); w.hooks = dict(w.base_hooks); it = interp(w); got = it.call('@' + nm, [a, b] if nm in ('w_add', 'w_sub', 'w_mul') else [a]); n += 1
                if got != exp: bad.append('%s %s(%#x,%#x) = %#x expected %#x' % (arch, nm, a, b, got, exp))
    return {'vectors': n, 'mismatches': bad[:5]}

def replay(ctx, d):
    if 'event' in d: return True, str(d['event'])
    got = interp(world(ctx, d['arch'])).call('@' + d['name'], d['vals']) if d['name'].startswith('w_') else None
    return True, 'interpreter-only replay: %s(%s) = %s' % (d['name'], d['vals'], got)
