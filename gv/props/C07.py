# C07 — linear_hash is the rate-8 capacity-4 sponge for every input length.
from . import poseidon
from ..runner import Ob
META = dict(
    functions=['PoseidonGoldilocks::linear_hash_seq', 'linear_hash (AVX2)', 'linear_hash_avx512 (two inputs at a time)'],
    bounds={'quick': 'input lengths 0..67 and 255..258, 2047, 2049, 65537, 65545 (every residue mod 8, both sides of the <=4 pass-through threshold, first/middle/last block positions); all element values', 'thorough': 'lengths 0..131'},
    outside=['lengths above the bound (the loop body is the same; no induction over the length is claimed)'], stubs=[],
    assumptions=['hash_full_result* is summarised by an uninterpreted 12->12 permutation PERM (justified by C06); equalities are pure EUF', 'the input object holds exactly the declared number of words, so any over-read is an out-of-bounds event'],
    trusted_base=['reference sponge gv/props/poseidon.py:sponge'])
def obligations(ctx):
    Lm = 131 if ctx.thorough else 67
    # a few long inputs around the wrap points of narrow counters (8-, 11- and 16-bit element/block counts)
    extra = [255, 256, 257, 258, 2047, 2049, 65537, 65545] + ([511, 513, 1023, 1025, 4097, 32769, 65535, 131075] if ctx.thorough else [])
    obs = [Ob('%s/L%d' % (v, L), poseidon.ob_lh, (v, L), weight=L + 1) for v in ('seq', 'avx', 'avx512') for L in list(range(0, Lm + 1)) + extra]
    # placements of the caller's buffers that the one-row variants support: the digest written over the first / the last four input words
    for v in ('seq', 'avx'):
        for L in [0, 1, 3, 4, 5, 7, 8, 9, 12, 15, 16, 17, 23, 24, 25, 31, 33, 40, 41, 44] + ([64, 65, 67] if ctx.thorough else []):
            for place in ('inplace', 'tail'): obs.append(Ob('%s/L%d/%s' % (v, L, place), poseidon.ob_lh, (v, L, place), weight=L + 1))
    return obs
def validate(ctx):
    rng = ctx.rng('C07'); n = 0; bad = []
    from .. import core, kern
    import ctypes
    for var in ('seq', 'avx', 'avx512'):
        for L in (0, 3, 5, 8, 13):
            k = 2 if var == 'avx512' else 1; xs = [rng.getrandbits(64) for _ in range(k * L)]
            f = core.nfn(ctx.bdir, poseidon.cfg_of(var), poseidon.LH[var]); n += 1
            if f is None: continue
            ib = kern.u64buf(xs + [0]); ob_ = kern.u64buf([0] * (4 * k)); f(ctypes.byref(ob_), ctypes.byref(ib), ctypes.c_uint64(L))
            itp = poseidon.run_lh(ctx, var, L, xs, concrete=True)[1]
            if list(ob_) != itp: bad.append('linear_hash %s L=%d native %s interpreter %s' % (var, L, list(ob_), itp))
    return {'vectors': n, 'mismatches': bad}
def replay(ctx, d): return poseidon.replay(ctx, d)
