# C05 — extendPol is the low-degree extension onto the shifted coset.
from . import ntt, C03
from ..runner import Ob
META = dict(C03.META)
META['functions'] = ['NTT_Goldilocks::extendPol', 'NTT_Goldilocks::computeR', 'nested NTT_Goldilocks(N_ext, nThreads, N_ext/N) constructor and destructor', 'reversePermutation zero-padding paths'] + C03.META['functions']
META['bounds'] = {'quick': 'N = 2^a <= N_ext = 2^b, b <= 4 (incl. N = 1 and N = N_ext); ncols 1..3; nphase, nblock: ALL uint64 values (symbolic); output == input (N_ext rows) or distinct buffers; buffer in {NULL, caller}; all input matrices; plus (N,N_ext) in {(32,64),(64,128),(32,256)} with concrete (nphase,nblock) in {(3,1),(2,1),(4,2)}',
                  'thorough': 'b <= 7 (N_ext <= 128), ncols 1..4'}
META['trusted_base'] = C03.META['trusted_base'] + ['oracle: interpolation by the independent inverse DFT and Horner evaluation at 7·w_Next^k (ground arithmetic on coefficients); SHIFT read from the IR global and checked = 7']
def classes(ctx):
    Bm = 7 if ctx.thorough else 4; C = 4 if ctx.thorough else 3; out = []
    for b in range(0, Bm + 1):
        for a in range(0, b + 1):
            for ncols in range(1, C + 1):
                for inplace in (False, True):
                    for buf in (False, True):
                        out.append((a, b, ncols, inplace, buf))
    # wider column counts on small domains: column blocks with a remainder of two or more columns (ncols mod nblock >= 2 needs ncols >= 5)
    for (a, b) in ((1, 2), (0, 1), (2, 2)):
        for ncols in ((5, 7) if not ctx.thorough else (5, 6, 7, 8)):
            for inplace in (False, True):
                for buf in (False, True): out.append((a, b, ncols, inplace, buf))
    return out
def obligations(ctx):
    obs = []
    for (a, b, ncols, inplace, buf) in classes(ctx):
        obs.append(Ob('ext/N%d/Next%d/c%d/%s/%s' % (1 << a, 1 << b, ncols, 'inplace' if inplace else 'distinct', 'buf' if buf else 'nobuf'), ntt.ob,
                      ('C05', 'ext', a, b, ncols, 'same' if inplace else 'other', buf), dict(a=a), weight=(1 << b) * ncols))
    for (a, b) in (((5, 6), (6, 7), (5, 8), (7, 8), (8, 10)) if ctx.thorough else ((5, 6), (6, 7), (5, 8))):
        for sched in ((3, 1), (2, 1), (4, 2)):
            if b >= 10 and sched != (3, 1): continue
            ncols = 2 if sched == (4, 2) else 1
            for inplace in (False, True):
                obs.append(Ob('ext-large/N%d/Next%d/c%d/nphase%d/nblock%d/%s' % (1 << a, 1 << b, ncols, sched[0], sched[1], 'inplace' if inplace else 'distinct'), ntt.ob,
                              ('C05', 'ext', a, b, ncols, 'same' if inplace else 'other', False), dict(a=a, sched=sched, nthreads=(1, 3, 0, 2)[b % 4]), weight=(1 << b) * ncols * 4))
    return obs + C03.contract_obs(ctx)
def validate(ctx): return ntt.validate(ctx)
def replay(ctx, d): return ntt.replay(ctx, d)
