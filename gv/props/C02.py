# C02 — AVX2 lane kernels equal the scalar field op in every lane, every input.
from . import lanes
CFG = 'avx2'; N = 4
META = dict(
    functions=['Goldilocks::' + k for k in lanes.table(False)],
    bounds={'quick': 'none: loop-free kernels, all 4x64-bit register contents per operand under each documented operand assumption', 'thorough': 'same; cvc5 cross-check of linear obligations'},
    outside=['load/store/set helpers (pure data movement; covered through C17)'], stubs=[],
    assumptions=['documented operand assumptions are preconditions: shifted-canonical first operand (add_avx_a_sc), b <= 0xFFFFFFFF00000000 (*_b_small), multiplier < 2^8 (*_8, *_72), c_h < 2^32 (reduce_avx_96_64)'],
    trusted_base=['LLVM vector IR semantics of the AVX2 intrinsics as lowered by clang-14'])
def obligations(ctx): return lanes.obligations(ctx, CFG, N)
def validate(ctx): return lanes.validate(ctx, CFG, N)
def replay(ctx, d): return lanes.replay(ctx, d)
