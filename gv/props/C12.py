# C12 — parallel regions are race-free; results independent of threads and schedule.
from . import race
from ..runner import Ob
META = dict(
    functions=['every OpenMP-outlined function (.omp_outlined.*) of ntt_goldilocks.cpp, poseidon_goldilocks.cpp and goldilocks_base_field.cpp compiled with -fopenmp: NTT_iters batch loop, the reversePermutation loops (copy, zero-padding copy, in-place swap, in-place zero-padding swap), NTT block scatter loop, leaf and level loops of the six Merkle builders, parcpy, parSetZero'],
    bounds={'quick': 'region instances reached by: NTT/INTT n in {4,8} x ncols {1,2} (plus n = 64 for three schedules) x nphase {1,2,3} x nblock {1,2} x dst modes; extendPol (N,N_ext) in {(2,4),(4,8),(4,4)} x ncols {1,2,3} x nphase {1,2,3} x nblock {1,2}; Merkle rows {2,4,8} x cols {0,3,9} x dim {1,2} x batch {none,2} plus (32,3), (32,9,batch 4), (64,1), (256,1); the iteration pair is symbolic (all pairs of distinct iterations); parcpy/parSetZero: size < 2^60 and thread count fully symbolic',
            'thorough': 'n up to 32, ncols up to 3, Merkle rows up to 16'},
    outside=['shapes above the bound', 'the OpenMP runtime itself and clang\'s outlining (trusted)', 'output equality with the single-thread execution is a consequence of non-interference (Bernstein) and is not re-measured'],
    stubs=['__kmpc_serialized_parallel / __kmpc_end_serialized_parallel (if clause false): no-ops around the direct call of the outlined function by a team of one', '__kmpc_fork_call: the outlined function is executed for one symbolic iteration (analysis) and then sequentially over the whole space', '__kmpc_for_static_init_*: hands the team member the range [i,i] for a symbolic i within the loop bounds', 'hash_full_result* and scalar add/sub/mul: frame summaries (extents read/written) during the analysis'],
    assumptions=['OpenMP assigns every iteration to exactly one thread and orders nothing inside a region except the barrier at its end; num_threads, schedule(static[,chunk]) and omp_set_num_threads only influence the assignment, which is universally quantified',
                 'objects allocated inside the outlined function (per-iteration VLAs, stack buffers) are private'],
    trusted_base=['Bernstein conditions', 'reading of the OpenMP specification above'])
def obligations(ctx):
    obs = []
    D = (2, 3, 4, 5) if ctx.thorough else (2, 3); C = (1, 2, 3) if ctx.thorough else (1, 2)
    for d in D:
        for ncols in C:
            for nphase in (1, 2, 3):
                for nblock in (1, 2):
                    if nblock > ncols: continue
                    for kind in ('ntt', 'intt'):
                        for dstmode, buf in (('other', False), ('same', True), ('null', False)):
                            if d > 3 and (dstmode, buf) != ('other', False): continue
                            obs.append(Ob('%s/n%d/c%d/p%d/b%d/%s' % (kind, 1 << d, ncols, nphase, nblock, dstmode), race.ob_ntt, (kind, d, d, ncols, nphase, nblock, dstmode, buf), weight=(1 << d) * ncols))
    for d in ((6, 7) if ctx.thorough else (6,)):          # larger transforms, default-like schedules
        for kind in ('ntt', 'intt'):
            for nphase, nblock, ncols in ((3, 1, 1), (2, 1, 2), (4, 2, 2)):
                obs.append(Ob('%s/n%d/c%d/p%d/b%d/other' % (kind, 1 << d, ncols, nphase, nblock), race.ob_ntt, (kind, d, d, ncols, nphase, nblock, 'other', False), weight=(1 << d) * ncols * 2))
    for (a, b) in ((1, 2), (2, 3), (2, 2)) + (((3, 5),) if ctx.thorough else ()):
        for ncols in (1, 2, 3):
            for nphase in (1, 2, 3):
                for nblock in (1, 2):
                    if nblock > ncols or (ncols == 3 and nblock == 1): continue
                    for inplace in (False, True):
                        obs.append(Ob('ext/N%d/Next%d/c%d/p%d/b%d/%s' % (1 << a, 1 << b, ncols, nphase, nblock, 'inplace' if inplace else 'distinct'), race.ob_ntt, ('ext', a, b, ncols, nphase, nblock, 'same' if inplace else 'other', False), dict(a=a), weight=(1 << b) * ncols))
    R = (2, 4, 8, 16) if ctx.thorough else (2, 4, 8)
    for var in ('seq', 'avx', 'avx512'):
        for rows in R:
            for cols in (0, 3, 9):
                for dim in (1, 2):
                    for batch in (None, 2):
                        if rows == 8 and dim == 2 and cols == 9 and not ctx.thorough: continue
                        obs.append(Ob('tree/%s/r%d/c%d/d%d/%s' % (var, rows, cols, dim, 'plain' if batch is None else 'b%d' % batch), race.ob_tree, (var, rows, cols, dim, batch, (0, 1, 3)[(rows + cols) % 3]), weight=rows * (cols + 1)))
    for var in ('seq', 'avx', 'avx512'):
        # 256 rows: levels of 128 and 64 pairs, so that a region guarded by an if clause on the level size (a threshold up to 128) is analysed with a team
        for rows, cols, batch in ((32, 3, None), (32, 9, 4), (64, 1, None), (256, 1, None)):
            obs.append(Ob('tree/%s/r%d/c%d/d1/%s' % (var, rows, cols, 'plain' if batch is None else 'b%d' % batch), race.ob_tree, (var, rows, cols, 1, batch, 3), weight=rows * (cols + 1)))
    obs.append(Ob('parcpy/chunks', race.ob_parcpy_chunks, ('parcpy',))); obs.append(Ob('parSetZero/chunks', race.ob_parcpy_chunks, ('parSetZero',)))
    return obs
def replay(ctx, d): return True, str(d)
