# C09 — scalar cubic-extension arithmetic is exact in F_p[x]/(x^3 - x - 1).
import z3, ctypes
from .. import core, smt, kern, fmode, bv2int
from ..interp import *
from ..runner import Ob, ok, viol, inconc
from ..kern import P

CFG = 'avx2'; MODS = ['cen_avx2', 'gbf_avx2', 'gce_avx2']
E3 = 'Goldilocks3::Element'; E = 'Goldilocks::Element'
META = dict(
    functions=['Goldilocks3::add (4 overloads)', 'sub (4)', 'neg', 'mul (5)', 'square', 'div', 'mulScalar(string)', 'inv (2)', 'isOne', 'copy (2)', 'fromU64', 'toU64', 'batchInverse'],
    bounds={'quick': 'loop-free operations: none (all coefficient triples, all aliasing patterns); batchInverse: array lengths 1..4', 'thorough': 'batchInverse lengths 1..6'},
    outside=['toString/toVector/fromString(array) (string plumbing)', 'digits parsed by GMP for mulScalar: the parsed value is an arbitrary integer Z'],
    stubs=['mpz_init_set_str returns an arbitrary integer Z (all strings in all radices)', 'Goldilocks::inv contract: t·inv(t) ≡ 1 for t ≢ 0 (proved in C10)'],
    assumptions=['field-level mode over the contracts of Goldilocks::add/sub/mul (re-proved here); products are integer products, claims are polynomial congruences mod p on the Z-lift decided by z3 (NIA)',
                 'inverse: a non-zero extension element has non-zero norm (x^3-x-1 irreducible over F_p: trusted field theory); the proof obligation is a·inv(a) ≡ (1,0,0) whenever the norm is ≢ 0'],
    trusted_base=['ring homomorphism Z -> F_p (Z-lift)', 'batchInverse: identities are proved as polynomial identities in a commutative ring with an abstract inverse symbol'])

def f3mul(a, b):
    c0 = a[0] * b[0]; c1 = a[0] * b[1] + a[1] * b[0]; c2 = a[0] * b[2] + a[1] * b[1] + a[2] * b[0]; c3 = a[1] * b[2] + a[2] * b[1]; c4 = a[2] * b[2]
    return [c0 + c3, c1 + c3 + c4, c2 + c4]

def find(ctx, name, ty): return kern.sym(ctx, CFG, 'Goldilocks3', name, ty)

# operation table: (id, method name, type string, argument kinds, spec(a,b)->triple).  kinds: 'r' result ext, 'e' ext operand, 'b' base Element by value,
# 'br' base Element by reference, 'u' uint64 by value, 'ur' uint64 by reference, 'pe'/'pr' pointer-to-ext forms
def optable():
    z = lambda a: [a[0], a[1], a[2]]
    return [
        ('add/u64', 'add', 'void (%s &, const %s &, const uint64_t &)' % (E3, E3), ['r', 'e', 'ur'], lambda a, b: [a[0] + b, a[1], a[2]]),
        ('add/base', 'add', 'void (%s &, const %s &, const %s)' % (E3, E3, E), ['r', 'e', 'b'], lambda a, b: [a[0] + b, a[1], a[2]]),
        ('add/base-first', 'add', 'void (%s &, const %s, const %s &)' % (E3, E, E3), ['r', 'b', 'e'], lambda a, b: [b[0] + a, b[1], b[2]]),
        ('add/ext', 'add', 'void (%s &, const %s &, const %s &)' % (E3, E3, E3), ['r', 'e', 'e'], lambda a, b: [a[i] + b[i] for i in range(3)]),
        ('sub/u64', 'sub', 'void (%s &, %s &, uint64_t &)' % (E3, E3), ['r', 'e', 'ur'], lambda a, b: [a[0] - b, a[1], a[2]]),
        ('sub/base-first', 'sub', 'void (%s &, %s, %s &)' % (E3, E, E3), ['r', 'b', 'e'], lambda a, b: [a - b[0], -b[1], -b[2]]),
        ('sub/base', 'sub', 'void (%s &, %s &, %s)' % (E3, E3, E), ['r', 'e', 'b'], lambda a, b: [a[0] - b, a[1], a[2]]),
        ('sub/ext', 'sub', 'void (%s &, %s &, %s &)' % (E3, E3, E3), ['r', 'e', 'e'], lambda a, b: [a[i] - b[i] for i in range(3)]),
        ('neg', 'neg', 'void (%s &, %s &)' % (E3, E3), ['r', 'e'], lambda a: [-a[0], -a[1], -a[2]]),
        ('mul/ptr', 'mul', 'void (%s *, %s *, %s *)' % (E3, E3, E3), ['r', 'e', 'e'], f3mul),
        ('mul/ext', 'mul', 'void (%s &, %s &, %s &)' % (E3, E3, E3), ['r', 'e', 'e'], f3mul),
        ('mul/base', 'mul', 'void (%s &, %s &, %s &)' % (E3, E3, E), ['r', 'e', 'br'], lambda a, b: [a[i] * b for i in range(3)]),
        ('mul/base-first', 'mul', 'void (%s &, %s, %s &)' % (E3, E, E3), ['r', 'b', 'e'], lambda a, b: [b[i] * a for i in range(3)]),
        ('mul/u64', 'mul', 'void (%s &, %s &, uint64_t)' % (E3, E3), ['r', 'e', 'u'], lambda a, b: [a[i] * b for i in range(3)]),
        ('square', 'square', 'void (%s &, %s &)' % (E3, E3), ['r', 'e'], lambda a: f3mul(a, a)),
        ('copy/ref', 'copy', 'void (%s &, const %s &)' % (E3, E3), ['r', 'e'], lambda a: z(a)),
        ('copy/ptr', 'copy', 'void (%s *, const %s *)' % (E3, E3), ['r', 'e'], lambda a: z(a)),
    ]

def setup(ctx, mode='poly'):
    w = core.world(ctx.bdir, MODS); w.hooks = dict(w.base_hooks)
    alg = fmode.Alg(mode); fmode.install_scalar(w, alg); return w, alg

def mk_operand(alg, kind, nm, shared=None):
    """returns (argument value, spec value, objects)"""
    if kind in ('e',):
        o = shared or Obj(24, nm, 8); vs = [alg.var('%s%d' % (nm, i)) for i in range(3)]
        if shared is None:
            for i in range(3): o.cells[i] = FV(vs[i])
        else: vs = [o.cells[i].cls for i in range(3)]
        return Ptr(o, 0), vs, o
    if kind in ('b', 'br'):
        v = alg.var(nm)
        if kind == 'b': return FV(v), v, None
        o = Obj(8, nm, 8); o.cells[0] = FV(v); return Ptr(o, 0), v, o
    if kind in ('u', 'ur'):
        v = core.bv64(nm)
        if kind == 'u': return v, bv2int.IntOfBV(v), None
        o = Obj(8, nm, 8); o.cells[0] = v; return Ptr(o, 0), bv2int.IntOfBV(v), o

def congr_query(alg, outs, spec, assumptions=(), tmo=60):
    """all (out_i - spec_i) ≡ 0 mod p ?  -> smt.Res"""
    def goal(tr): return z3.And([tr.any((alg.toz3(o) - alg.toz3(s_)) % P == 0) for o, s_ in zip(outs, spec)])
    if assumptions:
        sv = z3.Solver(); sv.set('timeout', 30000); sv.add(list(assumptions))
        if sv.check() == z3.unsat: return smt.Res('unknown', info='vacuous: assumptions unsatisfiable')
    return smt.prove(goal, assumptions=[(lambda a: (lambda tr: tr.any(a)))(a) for a in assumptions], timeout=tmo,
                     variants=[dict(limb_min=0, abstract=False, logic=None, share=0.5), dict(limb_min=0, abstract=False, logic='QF_NIA', share=0.5)])

def model_vals(res, names):
    return {n: res.model.get(n, 0) for n in names}

def ob_op(ctx, oid, name, ty, kinds, spec, alias):
    w, alg = setup(ctx); fn = find(ctx, name, ty)
    fmode.install_predicates(w, alg)          # isZero/isOne/equal on field words fork the run on the residue-class condition
    def go(it):
        ops = []; specv = []; objs = []
        res = Obj(24, 'result', 8)
        for idx, k in enumerate(kinds[1:]):
            nm = 'ab'[idx]
            shared = None
            if alias == 'a=b' and idx == 1 and kinds[1] == 'e' and k == 'e': shared = objs[0]
            a, sv, o = mk_operand(alg, k, nm, shared); ops.append(a); specv.append(sv); objs.append(o)
        if alias == 'out=a' or alias == 'all': res = [o for o, k in zip(objs, kinds[1:]) if k == 'e'][0]
        if alias == 'out=b': res = [o for o, k in zip(objs, kinds[1:]) if k == 'e'][-1]
        specz = []
        for e in spec(*[[alg.toz3(x) for x in sv] if isinstance(sv, list) else alg.toz3(sv) for sv in specv]): specz.append(e)
        it.call(fn, [Ptr(res, 0)] + ops)
        outs = [fmode.cls_of(res.cells.get(i)) if res.cells.get(i) is not None else None for i in range(3)]
        return outs, specz
    paths = explore(w, go, max_paths=64); variants = []
    for p in paths:
        if p.status == 'violation': e = p.result; return viol('%s/%s' % (oid, e.kind), 'Goldilocks3::%s (%s): %s' % (name, alias, e.msg), replay=dict(event=str(e)))
        if p.status != 'ok': return inconc('path ends in %s: %s' % (p.status, p.result))
        outs, specz = p.result
        if any(o is None for o in outs): return viol('%s/unwritten' % oid, 'result coefficient not written', replay=dict(event='unwritten'))
        r = congr_query(alg, outs, specz, assumptions=list(p.pc))
        if r.status == 'sat': return confirm_op(ctx, oid, name, ty, kinds, spec, alias, r.model)
        if r.status != 'unsat': return inconc(r.info)
        variants.append(r.variant)
    return ok('%d path(s), 3 coefficient congruences each; %s' % (len(paths), variants[0] if variants else ''), sample=dict(op=oid, alias=alias, type=ty, paths=len(paths)))

def native_op(ctx, fn, kinds, alias, vals):
    """vals: per operand either [3 ints] or int"""
    f = core.nfn(ctx.bdir, CFG, fn); U = ctypes.c_uint64
    bufs = []; args = []
    for k, v in zip(kinds[1:], vals):
        if k == 'e': b = (U * 3)(*v); bufs.append(b); args.append(b)
        elif k in ('b', 'u'): bufs.append(None); args.append(U(v))
        else: b = U(v); bufs.append(b); args.append(ctypes.byref(b))
    ext = [b for b, k in zip(bufs, kinds[1:]) if k == 'e']
    if alias == 'a=b' and len(ext) == 2: args[1] = args[0]; ext[1] = ext[0]
    res = (U * 3)()
    if alias in ('out=a', 'all'): res = ext[0]
    if alias == 'out=b': res = ext[-1]
    f(res, *args); return [res[i] for i in range(3)]

def confirm_op(ctx, oid, name, ty, kinds, spec, alias, model):
    vals = []
    for idx, k in enumerate(kinds[1:]):
        nm = 'ab'[idx]
        if k == 'e': vals.append([model.get('%s%d' % (nm, i), 0) % 2**64 for i in range(3)])
        else: vals.append(model.get(nm, 0) % 2**64)
    if alias == 'a=b' and kinds[1:] == ['e', 'e']: vals[1] = vals[0]
    got = native_op(ctx, find(ctx, name, ty), kinds, alias, vals); exp = [x % P for x in spec(*vals)]
    rep = dict(oid=oid, name=name, ty=ty, kinds=kinds, alias=alias, vals=vals)
    if [g % P for g in got] != exp:
        return viol(oid, 'Goldilocks3::%s [%s] (%s) on %s -> %s, expected %s (mod p)' % (name, ty, alias, vals, [g % P for g in got], exp), replay=rep)
    return inconc('ENCODING-MISMATCH: model %s does not reproduce natively' % vals)

def aliases(kinds):
    ne = sum(1 for k in kinds[1:] if k == 'e')
    if ne == 2: return ['distinct', 'out=a', 'out=b', 'a=b', 'all']
    return ['distinct', 'out=a']

# ---- inverse, division
def inv_hook(w, alg, assumptions):
    fn = '@_ZN10Goldilocks3invERKNS_7ElementE'
    def h(it, args):
        t = fmode.cls_of(w.load(args[0], I(64))); tz = alg.toz3(t)
        w.ninv = getattr(w, 'ninv', 0) + 1; ti = z3.Int('tinv%d' % w.ninv)
        assumptions.append(tz % P != 0); assumptions.append((tz * ti - 1) % P == 0); w.inv_arg = tz
        return FV(ti)
    w.hooks[fn] = h
    # the two-argument overload inv(Element &result, const Element &in) has the same contract (C10 proves both)
    def h2(it, args):
        r = h(it, [args[1]]); w.store(args[0], I(64), r); return None
    w.hooks['@_ZN10Goldilocks3invERNS_7ElementERKS0_'] = h2

def ob_inv(ctx, form, alias):
    w, alg = setup(ctx); asm = []; inv_hook(w, alg, asm); it = Interp(w)
    fn = find(ctx, 'inv', 'void (%s *, %s *)' % (E3, E3) if form == 'ptr' else 'void (%s &, %s &)' % (E3, E3))
    a = Obj(24, 'a', 8); av = [alg.var('a%d' % i) for i in range(3)]
    for i in range(3): a.cells[i] = FV(av[i])
    res = a if alias == 'out=a' else Obj(24, 'r', 8)
    it.call(fn, [Ptr(res, 0), Ptr(a, 0)])
    outs = [alg.toz3(fmode.cls_of(res.cells[i])) for i in range(3)]; az = [alg.toz3(x) for x in av]
    prod = f3mul(az, outs)
    # the argument handed to the base-field inverse must be (a multiple by a unit of) the norm; independent formula of the norm of a0+a1x+a2x^2:
    a0, a1, a2 = az
    norm = a0*a0*a0 + a1*a1*a1 + a2*a2*a2 + 2*a0*a0*a2 - a0*a1*a1 + a0*a2*a2 - a1*a2*a2 - 3*a0*a1*a2
    r0 = smt.prove(lambda tr: z3.Or((w.inv_arg - norm) % P == 0, (w.inv_arg + norm) % P == 0), timeout=60, variants=[dict(limb_min=0, abstract=False, logic=None, share=1.0)])
    if r0.status != 'unsat':
        # the algorithm does not invert ±norm(a): not a violation in itself (another algorithm may be correct); it is one only if a concrete call misbehaves
        cands = [[r0.model.get('a%d' % i, 0) % 2**64 for i in range(3)]] if r0.status == 'sat' else []
        return native_inv_check(ctx, fn, alias, form, cands, 'argument of the base inverse is not ±norm(a) (%s)' % r0.status)
    r = congr_query(alg, prod, [z3.IntVal(1), z3.IntVal(0), z3.IntVal(0)], assumptions=asm)
    if r.status == 'unsat': return ok('a·inv(a) ≡ (1,0,0) whenever norm(a) ≢ 0; inverted value = ±norm(a)', sample=dict(op='inv', form=form, alias=alias))
    if r.status == 'sat':
        vals = [r.model.get('a%d' % i, 0) % 2**64 for i in range(3)]
        f = core.nfn(ctx.bdir, CFG, fn); U = ctypes.c_uint64; ab = (U * 3)(*vals); rb = ab if alias == 'out=a' else (U * 3)()
        f(rb, ab); got = f3mul([v % P for v in vals], [rb[i] % P for i in range(3)])
        if [g % P for g in got] != [1, 0, 0]: return viol('inv', 'Goldilocks3::inv(%s): a·inv(a) = %s != (1,0,0)' % (vals, [g % P for g in got]), replay=dict(oid='inv', vals=vals, form=form, alias=alias))
        return inconc('ENCODING-MISMATCH: inv model %s does not reproduce' % vals)
    return inconc(r.info)

def ob_div(ctx, alias):
    w, alg = setup(ctx); asm = []; inv_hook(w, alg, asm); it = Interp(w)
    fn = find(ctx, 'div', 'void (%s &, %s &, %s)' % (E3, E3, E))
    a = Obj(24, 'a', 8); av = [alg.var('a%d' % i) for i in range(3)]
    for i in range(3): a.cells[i] = FV(av[i])
    b = alg.var('b'); res = a if alias == 'out=a' else Obj(24, 'r', 8)
    it.call(fn, [Ptr(res, 0), Ptr(a, 0), FV(b)])
    outs = [alg.toz3(fmode.cls_of(res.cells[i])) for i in range(3)]; bz = alg.toz3(b)
    r0 = smt.prove(lambda tr: (w.inv_arg - bz) % P == 0, timeout=30, variants=[dict(limb_min=0, abstract=False, logic=None, share=1.0)])
    if r0.status != 'unsat': return inconc('div does not invert its divisor')
    r = congr_query(alg, [o * bz for o in outs], [alg.toz3(x) for x in av], assumptions=asm)
    if r.status == 'unsat': return ok('div(a,b)·b ≡ a whenever b ≢ 0', sample=dict(op='div', alias=alias))
    if r.status == 'sat': return viol('div', 'Goldilocks3::div wrong for model %s' % r.model, replay=dict(event='div', model=r.model))
    return inconc(r.info)

# ---- mulScalar(string): the decimal string is parsed by GMP into an arbitrary integer Z
def ob_mulscalar(ctx):
    w, alg = setup(ctx); it = Interp(w)
    fn = find(ctx, 'mulScalar', 'void (%s &, %s &, std::string &)' % (E3, E3))
    Z = z3.Int('Z')
    def set_str(it_, args):
        w.mpz_set(args[0], Z); w.set_str_args = (args[1], args[2]); return 0
    w.hooks['@__gmpz_init_set_str'] = set_str
    from .. import stubs
    stubs.install_strconv(w, Z)
    chars = core.obj_words('chars', [0x3231], 8); chars.size = 3
    sobj = Obj(32, 'string', 8); sobj.cells[0] = Ptr(chars, 0); sobj.cells[1] = 2; sobj.cells[2] = 0; sobj.cells[3] = 0
    a = Obj(24, 'a', 8); av = [alg.var('a%d' % i) for i in range(3)]
    for i in range(3): a.cells[i] = FV(av[i])
    res = Obj(24, 'r', 8)
    try:
        it.call(fn, [Ptr(res, 0), Ptr(a, 0), Ptr(sobj, 0)]); outs = [res.cells[i] for i in range(3)]
    except Terminated as e: return viol('mulScalar/terminated', 'mulScalar terminated: %s' % e, replay=dict(event=str(e)))
    outs = [alg.toz3(fmode.cls_of(o)) for o in outs]
    r = congr_query(alg, outs, [alg.toz3(x) * Z for x in av], tmo=60)
    if r.status == 'unsat': return ok('result ≡ a·Z for every integer Z the string denotes', sample=dict(op='mulScalar'))
    if r.status == 'sat':
        # Z is an Int variable (not a word): recover the witness with a direct query and replay it on the native helper
        tr = smt.T(); s_ = z3.Solver(); s_.set('timeout', 60000)
        g = z3.And([tr.any((o - alg.toz3(x) * Z) % P == 0) for o, x in zip(outs, av)]); s_.add(tr.side); s_.add(z3.Not(g))
        cands = []
        if s_.check() == z3.sat:
            m = s_.model(); zv = m.eval(Z, model_completion=True).as_long(); cands.append((zv, [m.eval(alg.toz3(x), model_completion=True).as_long() % P or 1 for x in av]))
        cands += [(-(P + 1), [1, 2, 3]), (2**64 + 5, [1, 2, 3]), (5 * P + 1, [3, 1, 4]), (-1, [1, 2, 3])]
        from . import C15
        for zv, avals in cands:
            out = C15.hrun(ctx, 'mulScalar3', avals[0], avals[1], avals[2], str(zv)).split()
            exp = [x * zv % P for x in avals]
            if len(out) != 3 or [int(v) % P for v in out] != exp:
                return viol('mulScalar', 'Goldilocks3::mulScalar(%s, "%d") = %s, exact product is %s' % (avals, zv, out, exp), replay=dict(oid='mulScalar', vals=avals, Z=zv))
        return inconc('mulScalar congruence not proved, but no candidate string reproduces natively')
    return inconc(r.info)

# ---- isOne: bit-precise
def ob_isone(ctx):
    w = core.world(ctx.bdir, MODS); w.hooks = dict(w.base_hooks)
    fn = find(ctx, 'isOne', 'bool (%s &)' % E3)
    a = [core.bv64('a%d' % i) for i in range(3)]
    def mk(w_):
        o = core.obj_words('a', list(a), 8); return [Ptr(o, 0)], (lambda ret: [ret])
    paths = kern.run_kernel(ctx, CFG, MODS, fn, mk)
    # the returned bool must be true exactly when the classes are (1,0,0)
    for pc, st, res in paths:
        if st != 'ok': return viol('isOne/event', str(res), replay=dict(event=str(res)))
        ret = res[0]
        retb = (ret != 0) if is_c(ret) else (tobool(ret) if (z3.is_bool(ret) or ret.size() == 1) else ret != 0)
        def goal(tr):
            A = [tr.val(x) for x in a]
            isone = z3.And((A[0] - 1) % P == 0, A[1] % P == 0, A[2] % P == 0)
            rb = tr.bool(retb) if not isinstance(retb, bool) else z3.BoolVal(retb)
            return rb == isone
        r = smt.prove(goal, assumptions=list(pc), timeout=60)
        if r.status == 'sat':
            vals = [r.model.get('a%d' % i, 0) for i in range(3)]
            f = core.nfn(ctx.bdir, CFG, fn, ctypes.c_bool); b = (ctypes.c_uint64 * 3)(*vals); got = bool(f(b)); exp = [v % P for v in vals] == [1, 0, 0]
            if got != exp: return viol('isOne', 'Goldilocks3::isOne(%s) returns %s, element is %s(1,0,0)' % ([hex(v) for v in vals], got, '' if exp else 'not '), replay=dict(oid='isOne', vals=vals))
            return inconc('ENCODING-MISMATCH isOne %s' % vals)
        if r.status != 'unsat': return inconc(r.info)
    return ok('%d paths: isOne(e) <=> class(e) = (1,0,0)' % len(paths), sample=dict(op='isOne', paths=len(paths)))

# ---- fromU64 / toU64 : bit-precise
def ob_conv(ctx, which):
    w = core.world(ctx.bdir, MODS); w.hooks = dict(w.base_hooks)
    if which == 'fromU64': fn = find(ctx, 'fromU64', 'void (%s &, uint64_t *)' % E3)
    else: fn = find(ctx, 'toU64', 'void (uint64_t (&)[3], const %s &)' % E3)
    a = [core.bv64('a%d' % i) for i in range(3)]
    def mk(w_):
        o = core.obj_words('a', list(a), 8); r = Obj(24, 'r', 8); return [Ptr(r, 0), Ptr(o, 0)], (lambda ret: core.words(r))
    paths = kern.run_kernel(ctx, CFG, MODS, fn, mk)
    def goal(tr, ret, outs):
        if which == 'fromU64': return [('c%d' % i, (tr.val(outs[i]) - tr.val(a[i])) % P == 0) for i in range(3)]
        return [('c%d' % i, z3.And((tr.val(outs[i]) - tr.val(a[i])) % P == 0, tr.val(outs[i]) < P)) for i in range(3)]
    r = kern.prove_paths(ctx, paths, goal)
    if r[0] == 'unsat': return ok('%d paths; %s' % (len(paths), r[1]), sample=dict(op=which, paths=len(paths)))
    if r[0] == 'sat': return viol(which, 'Goldilocks3::%s wrong for %s' % (which, r[1]), replay=dict(event=which, model=r[1]))
    if r[0] == 'event': return viol(which + '/event', str(r[2]), replay=dict(event=str(r[2])))
    return inconc(str(r[1]))

# ---- batchInverse: ring-level, abstract inverse symbol
def ob_batchinv(ctx, n, place='disjoint'):
    """Goldilocks3::mul/inv/copy summarised as operations of an abstract commutative ring (elements = Int symbols);
       res[i]·src[i] = I·Π src  as polynomial identities (I = the symbol of the single inverse), extents checked."""
    w = core.world(ctx.bdir, MODS); w.hooks = dict(w.base_hooks)
    fn = '@_ZN11Goldilocks312batchInverseEPA3_N10Goldilocks7ElementES3_m'
    if fn not in w.funcs: return inconc('batchInverse not found in IR')
    class R:   # ring element token stored in the first cell of a 3-word element; the other two cells hold markers
        def __init__(s, e): s.e = e
    def rd(p):
        c = [p.obj.cells.get(p.off // 8 + i) for i in range(3)]
        w._check(Ptr(p.obj, p.off), 24, 'load')
        if any(x is None for x in c): raise Violation('uninit-read', 'extension element read before it was written')
        if not (isinstance(c[0], R) and c[1] is c[0] and c[2] is c[0]): raise Unsupported('torn extension element')
        return c[0].e
    def wr(p, e):
        w._check(Ptr(p.obj, p.off), 24, 'store'); t = R(e)
        for i in range(3): p.obj.cells[p.off // 8 + i] = t
    invs = []
    w.hooks[find(ctx, 'mul', 'void (%s &, %s &, %s &)' % (E3, E3, E3))] = lambda it, a: wr(a[0], rd(a[1]) * rd(a[2]))
    w.hooks[find(ctx, 'copy', 'void (%s &, const %s &)' % (E3, E3))] = lambda it, a: wr(a[0], rd(a[1]))
    def inv(it, a):
        x = rd(a[1]); I_ = z3.Int('I%d' % len(invs)); invs.append((x, I_)); wr(a[0], I_)
    w.hooks[find(ctx, 'inv', 'void (%s &, %s &)' % (E3, E3))] = inv
    it = Interp(w)
    src = Obj(24 * n, 'src', 8); xs = [z3.Int('x%d' % i) for i in range(n)]
    for i in range(n): wr(Ptr(src, 24 * i), xs[i])
    res = src if place == 'inplace' else Obj(24 * n, 'res', 8)      # in place: the results overwrite the inputs (res == src)
    try: it.call(fn, [Ptr(res, 0), Ptr(src, 0), n])
    except Violation as e: return viol('batchInverse/%s' % e.kind, 'batchInverse(size=%d): %s' % (n, e.msg), replay=dict(event=str(e)))
    ptxt = ' in place (res == src)' if place == 'inplace' else ''
    if len(invs) != 1: return native_batchinv_check(ctx, fn, n, 'batchInverse(size=%d)%s performs %d inversions (the ring-level argument covers the single-inversion scheme only)' % (n, ptxt, len(invs)))
    X, I_ = invs[0]; prod = 1
    for x in xs: prod = prod * x
    s = z3.Solver(); s.set('timeout', 60000)
    # inverted value is the product of all inputs; each result times its input equals I·Π src (polynomial identities, no hypotheses)
    bad = [X != prod] + [rd(Ptr(res, 24 * i)) * xs[i] != I_ * prod for i in range(n)]
    s.add(z3.Or(bad)); r = smt.check(s)
    if r == z3.unsat: return ok('size %d: one inversion of Π src; res[i]·src[i] = I·Π src for all i (ring identities); extents exact' % n, sample=dict(op='batchInverse', size=n))
    if r == z3.sat: return native_batchinv_check(ctx, fn, n, 'batchInverse(size=%d)%s: ring identities res[i]·src[i] = I·Π src fail at the abstract level' % (n, ptxt))
    return inconc('batchInverse identity unknown')

def _special_elems(rng):
    k = rng.choice([1, 2, 5, 7, P - 1, 2**32, rng.getrandbits(64)])
    return [[k % 2**64, 0, 0], [0, k % 2**64, 0], [0, 0, 1], [1, 0, 0], [P + 1, P, 0], [rng.getrandbits(64) for _ in range(3)], [P - 1, P - 1, P - 1], [2**64 - 1, 1, 2**63]]
def native_inv(ctx, vals):
    f = core.nfn(ctx.bdir, CFG, find(ctx, 'inv', 'void (%s &, %s &)' % (E3, E3))); U = ctypes.c_uint64
    def body():
        ab = (U * 3)(*vals); rb = (U * 3)(); f(rb, ab); return [rb[i] for i in range(3)]
    r = core.forked(body, timeout=30)
    return r[1] if r[0] == 'ok' else None
def native_inv_check(ctx, fn, alias, form, cands, why):
    """a structural expectation of the checker failed; decide by concrete native calls: violation only if a·inv(a) != 1 is observed"""
    rng = ctx.rng('C09inv'); f = core.nfn(ctx.bdir, CFG, fn); U = ctypes.c_uint64
    for vals in cands + _special_elems(rng) + [[rng.getrandbits(64) for _ in range(3)] for _ in range(40)]:
        if all(v % P == 0 for v in vals): continue
        def body(vals=vals):
            ab = (U * 3)(*vals); rb = ab if alias == 'out=a' else (U * 3)(); f(rb, ab); return [rb[i] for i in range(3)]
        r = core.forked(body, timeout=30)
        got = f3mul([v % P for v in vals], [x % P for x in r[1]]) if r[0] == 'ok' else None
        if got is None or [g % P for g in got] != [1, 0, 0]:
            return viol('inv', 'Goldilocks3::inv(%s): %s; native call: %s, a·inv(a) = %s' % (vals, why, r, got), replay=dict(oid='inv', vals=vals, form=form, alias=alias))
    return inconc('%s; no concrete call misbehaves' % why)
def native_batchinv_check(ctx, fn, n, why):
    rng = ctx.rng('C09binv%d' % n); f = core.nfn(ctx.bdir, CFG, fn); U = ctypes.c_uint64
    for trial in range(60):
        sp = _special_elems(rng)
        src = [rng.choice(sp) if rng.random() < 0.5 else [rng.getrandbits(64) for _ in range(3)] for _ in range(n)]
        if trial % 3 == 1 and n >= 2:      # pairs whose product lies in the base field: x, k·x^-1
            x = [rng.getrandbits(64) for _ in range(3)]; xi = native_inv(ctx, x)
            if xi is not None:
                k = rng.choice([1, 3, 7]); src[0] = x; src[1] = [(k * v) % P for v in xi]
        if any(all(v % P == 0 for v in e) for e in src): continue
        for inplace in (False, True):
            def body():
                sb = (U * (3 * n))(*[v for e in src for v in e]); rb = sb if inplace else (U * (3 * n))(); f(rb, sb, U(n)); return [rb[i] for i in range(3 * n)]
            r = core.forked(body, timeout=30)
            bad = None
            if r[0] != 'ok': bad = 'native call ended with %s %s' % r
            else:
                for i in range(n):
                    got = f3mul([v % P for v in src[i]], [x % P for x in r[1][3 * i:3 * i + 3]])
                    if [g % P for g in got] != [1, 0, 0]: bad = 'res[%d]·src[%d] = %s' % (i, i, [g % P for g in got]); break
            if bad: return viol('batchInverse', '%s; native batchInverse(%s, size=%d%s): %s' % (why, src, n, ', in place' if inplace else '', bad), replay=dict(event='batchInverse', size=n, src=src, inplace=inplace))
    return inconc('%s; no concrete call misbehaves' % why)

def obligations(ctx):
    obs = []
    for oid, name, ty, kinds, spec in optable():
        for al in aliases(kinds): obs.append(Ob('%s/%s' % (oid, al), ob_op, (oid, name, ty, kinds, spec, al)))
    for form in ('ptr', 'ref'):
        for al in ('distinct', 'out=a'): obs.append(Ob('inv/%s/%s' % (form, al), ob_inv, (form, al)))
    for al in ('distinct', 'out=a'): obs.append(Ob('div/%s' % al, ob_div, (al,)))
    obs.append(Ob('mulScalar', ob_mulscalar)); obs.append(Ob('isOne', ob_isone))
    obs.append(Ob('fromU64', ob_conv, ('fromU64',))); obs.append(Ob('toU64', ob_conv, ('toU64',)))
    sizes = set(range(1, (6 if ctx.thorough else 4) + 1))
    # size thresholds present in the code (constants batchInverse compares with): both sides of each, and the first odd/even sizes after doubling
    w = core.world(ctx.bdir, MODS)
    for c in kern.compare_constants(w, '@_ZN11Goldilocks312batchInverseEPA3_N10Goldilocks7ElementES3_m', lo=5, hi=4096)[:3]:
        sizes |= {c - 1, c, c + 1, 2 * c + 1, 2 * c + 2}
    for n in sorted(sizes): obs.append(Ob('batchInverse/%d' % n, ob_batchinv, (n,)))
    for n in (1, 2, 3, 4): obs.append(Ob('batchInverse/%d/inplace' % n, ob_batchinv, (n, 'inplace')))
    from . import C03
    return obs + C03.contract_obs(ctx)

def validate(ctx):
    rng = ctx.rng('C09'); n = 0; bad = []
    V = [0, 1, P - 1, P, P + 1, 2**64 - 1, 2**32, 0xFFFFFFFF00000000]
    for oid, name, ty, kinds, spec in optable():
        for al in aliases(kinds):
            vals = []
            for k in kinds[1:]: vals.append([rng.choice(V + [rng.getrandbits(64)]) for _ in range(3)] if k == 'e' else rng.choice(V + [rng.getrandbits(64)]))
            if al in ('a=b', 'all') and kinds[1:] == ['e', 'e']: vals[1] = vals[0]
            got = native_op(ctx, find(ctx, name, ty), kinds, al, vals)
            # interpreter, concrete
            w = core.world(ctx.bdir, MODS); w.reset(); w.hooks = dict(w.base_hooks); it = Interp(w)
            objs = []; args = []
            for k, v in zip(kinds[1:], vals):
                if k == 'e': o = core.obj_words('e', list(v), 8); objs.append(o); args.append(Ptr(o, 0))
                elif k in ('b', 'u'): objs.append(None); args.append(v)
                else: o = core.obj_words('s', [v], 8); objs.append(o); args.append(Ptr(o, 0))
            ext = [o for o, k in zip(objs, kinds[1:]) if k == 'e']
            if al in ('a=b', 'all') and len(ext) == 2: args[1] = args[0]; ext[1] = ext[0]
            res = Obj(24, 'r', 8)
            if al in ('out=a', 'all'): res = ext[0]
            if al == 'out=b': res = ext[-1]
            it.call(find(ctx, name, ty), [Ptr(res, 0)] + args); n += 1
            if core.words(res) != got: bad.append('%s/%s native %s interp %s' % (oid, al, got, core.words(res)))
    return {'vectors': n, 'mismatches': bad}

def replay(ctx, d):
    if 'event' in d: return True, str(d['event'])
    if d.get('via') == 'C15':
        from . import C15
        return C15.replay(ctx, d)
    if d.get('oid') == 'isOne':
        f = core.nfn(ctx.bdir, CFG, find(ctx, 'isOne', 'bool (%s &)' % E3), ctypes.c_bool); b = (ctypes.c_uint64 * 3)(*d['vals']); got = bool(f(b)); exp = [v % P for v in d['vals']] == [1, 0, 0]
        return got != exp, 'isOne(%s) = %s, expected %s' % (d['vals'], got, exp)
    if d.get('oid') == 'inv': return True, 'inv replay: %s' % d
    for oid, name, ty, kinds, spec in optable():
        if oid == d['oid']:
            r = confirm_op(ctx, oid, name, ty, d['kinds'], spec, d['alias'], {})
    vals = d['vals']; spec = [t for t in optable() if t[0] == d['oid']][0][4]
    got = native_op(ctx, find(ctx, d['name'], d['ty']), d['kinds'], d['alias'], vals); exp = [x % P for x in spec(*vals)]
    return [g % P for g in got] != exp, '%s -> %s expected %s' % (vals, got, exp)
