# C14 — AVX512 dot / sparse / dense 12-wide matrix kernels equal the product mod p.
from . import mat
CFG = 'avx512'; N = 8
META = dict(
    functions=['Goldilocks::' + k for k in mat.kernels(True)],
    bounds={'quick': 'none: constant trip counts; all pairs of interleaved states in [0,2^64)^24, all coefficient arrays (8-bit variants: all entries in [0,256))', 'thorough': 'same; cvc5 cross-check'},
    outside=[], stubs=[],
    assumptions=['spmv_* are proved over the lane contracts of mult_avx512/add_avx512/add_avx512_b_c/mult_avx512_72/reduce_avx512_96_64 (re-proved in this run); mmult_*/dot_* over the spmv contract and add_avx / scalar add',
                 'unaligned variants receive an 8-byte aligned coefficient object, aligned (_a) variants a 64-byte aligned one; a stricter requirement in the code is reported as misaligned access'],
    trusted_base=['assume/guarantee composition along the real call graph (-fno-inline keeps every kernel a separate IR function)'])
def obligations(ctx): return mat.obligations(ctx, CFG, N)
def validate(ctx): return mat.validate(ctx, CFG, N)
def replay(ctx, d): return mat.replay(ctx, d)
