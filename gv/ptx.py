# Semantics of the PTX inline-asm subset met in gl64_t.cuh and in restructured variants of it:
#   add/addc/sub/subc(.cc), mul.lo/hi/wide, mad/madc.lo/hi/wide(.cc), setp.<cmp>, selp, and/or/xor/not (bits and predicates), shl/shr, cvt, mov incl.
#   the {lo,hi} pack/unpack forms, guarded execution "@p" / "@!p" of any of these (a guarded flag-setting instruction updates CC conditionally),
#   named registers declared with ".reg".  The carry flag CC, the predicate registers and the named registers persist across consecutive asm
#   statements (the header declares %top in one asm statement and uses it in the following ones).
import z3, re
from .interp import is_c, tobv, mask, Unsupported, POISON

def _sel(c, a, b, wd):
    if isinstance(c, bool): return a if c else b
    if is_c(a) and is_c(b) and a == b: return a
    return z3.If(c, tobv(a, wd), tobv(b, wd))
def _not(c): return (not c) if isinstance(c, bool) else z3.Not(c)
def _and(a, b):
    if isinstance(a, bool): return b if a else False
    if isinstance(b, bool): return a if b else False
    return z3.And(a, b)
def _or(a, b):
    if isinstance(a, bool): return True if a else b
    if isinstance(b, bool): return True if b else a
    return z3.Or(a, b)
def _xor(a, b):
    if isinstance(a, bool) and isinstance(b, bool): return a != b
    return z3.Xor(a if not isinstance(a, bool) else z3.BoolVal(a), b if not isinstance(b, bool) else z3.BoolVal(b))

class PTX:
    def __init__(s): s.reset()
    def reset(s): s.pred = {}; s.cc = 0; s.regs = {}; s.rw = {}
    def run(s, it, ins, args):
        text = ins.asm[1:-1].replace('%%', '%').replace('\\0A', '\n').replace('\\09', ' ')
        cons = ins.constraints[1:-1].split(',') if len(ins.constraints) > 2 else []
        cons = [c for c in cons if not c.startswith('~')]
        nout = sum(1 for c in cons if c.startswith('='))
        ops = {}; widths = {}
        for i, c in enumerate(cons):
            if c.startswith('='): ops[i] = None; widths[i] = 64 if 'l' in c else 32
        ai = 0
        for i, c in enumerate(cons):
            if c.startswith('='): continue
            v = args[ai][1]; ai += 1
            if v is POISON: raise Unsupported('PTX asm on undef operand')
            if c.isdigit(): ops[int(c)] = v
            else: ops[i] = v; widths[i] = 64 if c == 'l' else 32
        def isreg(tok): return tok.startswith('%') and not tok[1:2].isdigit()
        def rd(tok, wd):
            tok = tok.strip()
            if tok.startswith('$'):
                v = ops[int(tok[1:])]
                if v is None: raise Unsupported('PTX read of unset output operand')
                return v
            if isreg(tok):
                nm = tok[1:]
                if nm not in s.regs or s.regs[nm] is None: raise Unsupported('PTX register %s read before it is written' % tok)
                return s.regs[nm]
            return int(tok, 0) & mask(wd)
        def wr(tok, v, guard=None, wd=32):
            tok = tok.strip()
            if isreg(tok):
                nm = tok[1:]
                if nm not in s.rw: raise Unsupported('PTX register %s not declared' % tok)
                w_ = s.rw[nm]
                if guard is not None:
                    old = s.regs.get(nm)
                    if isinstance(guard, bool):
                        if not guard: return
                    elif old is None: raise Unsupported('predicated write to an unset register')
                    else: v = _sel(guard, v, old, w_)
                s.regs[nm] = v if is_c(v) else (tobv(v, w_) if not (z3.is_expr(v) and z3.is_bv(v) and v.size() == w_) else v)
                if is_c(s.regs[nm]): s.regs[nm] &= mask(w_)
                return
            i = int(tok[1:])
            if i >= nout: raise Unsupported('PTX asm writes an input operand')
            if guard is not None:
                old = ops[i]
                if isinstance(guard, bool):
                    if not guard: return
                elif old is None: raise Unsupported('predicated write to an unset operand')
                else: v = _sel(guard, v, old, widths[i])
            ops[i] = v
        def getp(tok):
            nm = tok.strip().lstrip('%')
            if nm not in s.pred: raise Unsupported('PTX predicate %s used before set' % nm)
            return s.pred[nm]
        def setp(tok, c, guard=None):
            nm = tok.strip().lstrip('%')
            if guard is None: s.pred[nm] = c
            elif isinstance(guard, bool):
                if guard: s.pred[nm] = c
            else: s.pred[nm] = _sel3(guard, c, s.pred.get(nm, False))
        def _sel3(g, a, b):
            a = a if not isinstance(a, bool) else z3.BoolVal(a); b = b if not isinstance(b, bool) else z3.BoolVal(b); return z3.If(g, a, b)
        def cw(c, wd):
            if is_c(c): return c
            if isinstance(c, bool): return int(c)
            if z3.is_bool(c): return z3.If(c, z3.BitVecVal(1, wd), z3.BitVecVal(0, wd))
            return z3.ZeroExt(wd - c.size(), c) if c.size() < wd else c
        def addw(a, b, c, wd):
            c = cw(c, wd)
            if is_c(a) and is_c(b) and is_c(c): t = a + b + c; return t & mask(wd), t >> wd
            A = tobv(a, wd); B = tobv(b, wd); s1 = A + B; c1 = z3.ULT(s1, A)
            if is_c(c) and c == 0: return s1, c1
            C = tobv(c, wd); s2 = s1 + C; c2 = z3.ULT(s2, s1)
            return s2, z3.Or(c1, c2)
        def subw(a, b, c, wd):
            c = cw(c, wd)
            if is_c(a) and is_c(b) and is_c(c): t = a - b - c; return t & mask(wd), int(t < 0)
            A = tobv(a, wd); B = tobv(b, wd); d1 = A - B; b1 = z3.ULT(A, B)
            if is_c(c) and c == 0: return d1, b1
            C = tobv(c, wd); d2 = d1 - C; b2 = z3.ULT(d1, C)
            return d2, z3.Or(b1, b2)
        def mulfull(a, b, wd):
            if is_c(a) and is_c(b): return a * b
            return z3.ZeroExt(wd, tobv(a, wd)) * z3.ZeroExt(wd, tobv(b, wd))
        def lo(x, wd): return x & mask(wd) if is_c(x) else z3.Extract(wd - 1, 0, x)
        def hi(x, wd): return x >> wd if is_c(x) else z3.Extract(2 * wd - 1, wd, x)
        def setcc(c, guard):
            if guard is None: s.cc = c
            elif isinstance(guard, bool):
                if guard: s.cc = c
            else:
                def cb(x):
                    if isinstance(x, bool) or is_c(x): return z3.BoolVal(bool(x))
                    return x if z3.is_bool(x) else (x != 0)
                s.cc = z3.If(guard, cb(c), cb(s.cc))
        def cmpv(cmp_, a, b, wd, signed):
            if is_c(a) and is_c(b):
                if signed:
                    a = a - (1 << wd) if a >> (wd - 1) else a; b = b - (1 << wd) if b >> (wd - 1) else b
                return {'eq': a == b, 'ne': a != b, 'lt': a < b, 'le': a <= b, 'gt': a > b, 'ge': a >= b, 'lo': a < b, 'ls': a <= b, 'hi': a > b, 'hs': a >= b}[cmp_]
            A = tobv(a, wd); B = tobv(b, wd)
            if cmp_ in ('eq', 'ne'): r = (A == B) if cmp_ == 'eq' else (A != B)
            elif signed: r = {'lt': A < B, 'le': A <= B, 'gt': A > B, 'ge': A >= B}[cmp_]
            else: r = {'lt': z3.ULT(A, B), 'le': z3.ULE(A, B), 'gt': z3.UGT(A, B), 'ge': z3.UGE(A, B), 'lo': z3.ULT(A, B), 'ls': z3.ULE(A, B), 'hi': z3.UGT(A, B), 'hs': z3.UGE(A, B)}[cmp_]
            return z3.simplify(r)
        def bitop(op, a, b, wd):
            if is_c(a) and is_c(b): return {'and': a & b, 'or': a | b, 'xor': a ^ b}[op]
            A = tobv(a, wd); B = tobv(b, wd); return {'and': A & B, 'or': A | B, 'xor': A ^ B}[op]
        stmts = [x.strip() for x in re.split(r';', text) if x.strip()]
        for st in stmts:
            while st.startswith('{'): st = st[1:].strip()
            while st.endswith('}') and '{' not in st: st = st[:-1].strip()
            if not st: continue
            if st.startswith('.reg'):
                m_ = re.match(r'\.reg\s*\.(\w+)\s+(.*)$', st)
                if not m_: raise Unsupported('PTX declaration ' + st)
                ty = m_.group(1)
                for nm in re.findall(r'%(\w+)', m_.group(2)):
                    if ty == 'pred': s.pred.pop(nm, None)
                    else: s.rw[nm] = 64 if ty.endswith('64') else (16 if ty.endswith('16') else 32); s.regs[nm] = None
                continue
            guard = None
            if st.startswith('@'):
                g, st = st.split(None, 1); neg = g.startswith('@!'); g0 = getp(g.lstrip('@!'))
                guard = _not(g0) if neg else g0
            mn, rest = (st.split(None, 1) + [''])[:2]; o = [x.strip() for x in re.split(r',(?![^{]*\})', rest)] if rest else []
            parts = mn.split('.'); base = parts[0]
            tyname = parts[-1]
            wd = 64 if tyname in ('u64', 'b64', 's64') else (16 if tyname in ('u16', 'b16', 's16') else 32)
            signed = tyname.startswith('s')
            docc = 'cc' in parts
            if base in ('add', 'addc'):
                r, c = addw(rd(o[1], wd), rd(o[2], wd), s.cc if base == 'addc' else 0, wd); wr(o[0], r, guard, wd)
                if docc: setcc(c, guard)
            elif base in ('sub', 'subc'):
                r, c = subw(rd(o[1], wd), rd(o[2], wd), s.cc if base == 'subc' else 0, wd); wr(o[0], r, guard, wd)
                if docc: setcc(c, guard)
            elif base == 'mul':
                if 'wide' in parts:
                    sw = 32 if tyname in ('u32', 's32') else 16
                    if signed: raise Unsupported('signed mul.wide')
                    pr = mulfull(rd(o[1], sw), rd(o[2], sw), sw); wr(o[0], pr, guard, 2 * sw)
                else:
                    pr = mulfull(rd(o[1], wd), rd(o[2], wd), wd); wr(o[0], lo(pr, wd) if 'lo' in parts else hi(pr, wd), guard, wd)
            elif base in ('mad', 'madc'):
                if 'wide' in parts:
                    sw = 32
                    pr = mulfull(rd(o[1], sw), rd(o[2], sw), sw); r, c = addw(pr, rd(o[3], 64), s.cc if base == 'madc' else 0, 64); wr(o[0], r, guard, 64)
                else:
                    pr = mulfull(rd(o[1], wd), rd(o[2], wd), wd); part = lo(pr, wd) if 'lo' in parts else hi(pr, wd)
                    r, c = addw(part, rd(o[3], wd), s.cc if base == 'madc' else 0, wd); wr(o[0], r, guard, wd)
                if docc: setcc(c, guard)
            elif base == 'setp':
                cmp_ = parts[1]
                if cmp_ not in ('eq', 'ne', 'lt', 'le', 'gt', 'ge', 'lo', 'ls', 'hi', 'hs'): raise Unsupported('setp.' + cmp_)
                c = cmpv(cmp_, rd(o[1], wd), rd(o[2], wd), wd, signed)
                if len(parts) > 3 and parts[2] in ('and', 'or', 'xor'):       # setp.cmp.boolop.type p, a, b, q
                    q = getp(o[3]); c = {'and': _and, 'or': _or, 'xor': _xor}[parts[2]](c, q)
                setp(o[0], c, guard)
            elif base == 'selp':
                pv = getp(o[3]); a = rd(o[1], wd); b = rd(o[2], wd)
                wr(o[0], _sel(pv, a, b, wd), guard, wd)
            elif base in ('and', 'or', 'xor') and tyname == 'pred':
                setp(o[0], {'and': _and, 'or': _or, 'xor': _xor}[base](getp(o[1]), getp(o[2])), guard)
            elif base == 'not' and tyname == 'pred': setp(o[0], _not(getp(o[1])), guard)
            elif base in ('and', 'or', 'xor'): wr(o[0], bitop(base, rd(o[1], wd), rd(o[2], wd), wd), guard, wd)
            elif base == 'not':
                a = rd(o[1], wd); wr(o[0], (~a) & mask(wd) if is_c(a) else ~tobv(a, wd), guard, wd)
            elif base in ('shl', 'shr'):
                a = rd(o[1], wd); n_ = rd(o[2], 32)
                if not is_c(n_): raise Unsupported('PTX shift by a register amount')
                if n_ >= wd: r = 0
                elif base == 'shl': r = (a << n_) & mask(wd) if is_c(a) else tobv(a, wd) << n_
                elif signed: raise Unsupported('PTX arithmetic shift')
                else: r = a >> n_ if is_c(a) else z3.LShR(tobv(a, wd), n_)
                wr(o[0], r, guard, wd)
            elif base == 'cvt':
                dw = 64 if parts[-2] in ('u64', 's64', 'b64') else 32; sw = wd; a = rd(o[1], sw)
                if parts[-1].startswith('s'): raise Unsupported('PTX signed cvt')
                if dw > sw: r = a if is_c(a) else z3.ZeroExt(dw - sw, tobv(a, sw))
                elif dw < sw: r = a & mask(dw) if is_c(a) else z3.Extract(dw - 1, 0, tobv(a, sw))
                else: r = a
                wr(o[0], r, guard, dw)
            elif base == 'mov':
                if o[1].startswith('{'):
                    l, h = [x.strip() for x in o[1].strip('{}').split(',')]; lv = rd(l, wd // 2); hv = rd(h, wd // 2)
                    v = (lv | (hv << (wd // 2))) if (is_c(lv) and is_c(hv)) else z3.Concat(tobv(hv, wd // 2), tobv(lv, wd // 2))
                    wr(o[0], v, guard, wd)
                elif o[0].startswith('{'):
                    l, h = [x.strip() for x in o[0].strip('{}').split(',')]; v = rd(o[1], wd)
                    wr(l, lo(v, wd // 2) if not is_c(v) else v & mask(wd // 2), guard, wd // 2); wr(h, (v >> (wd // 2)) if is_c(v) else z3.Extract(wd - 1, wd // 2, tobv(v, wd)), guard, wd // 2)
                else: wr(o[0], rd(o[1], wd), guard, wd)
            elif base == 'trap': raise Unsupported('PTX trap reached')
            else: raise Unsupported('PTX mnemonic ' + mn)
        outs = [ops[i] for i in range(nout)]
        if any(v is None for v in outs): raise Unsupported('PTX output operand never written')
        return outs[0] if nout == 1 else (outs if nout > 1 else None)
