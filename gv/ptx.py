# Semantics of the PTX inline-asm subset used by gl64_t.cuh: add/sub/addc/subc(.cc), mul.lo/hi, mad/madc.lo/hi(.cc), setp, selp, predicated mov/add/setp,
# mov.b64 {lo,hi}.  The carry flag CC and the predicate registers persist across consecutive asm statements (the header declares %top in one asm
# statement and uses it in the following ones).
import z3, re
from .interp import is_c, tobv, mask, Unsupported, POISON

class PTX:
    def __init__(s): s.reset()
    def reset(s): s.pred = {}; s.cc = 0
    def run(s, it, ins, args):
        text = ins.asm[1:-1].replace('%%', '%').replace('\\0A', '\n').replace('\\09', ' ')
        cons = ins.constraints[1:-1].split(',') if len(ins.constraints) > 2 else []
        cons = [c for c in cons if not c.startswith('~')]
        nout = sum(1 for c in cons if c.startswith('='))
        ops = {}; widths = {}
        for i, c in enumerate(cons):
            if c.startswith('='): ops[i] = None; widths[i] = 64 if 'l' in c else 32
        ai = 0
        for i, c in enumerate(cons):
            if c.startswith('='): continue
            v = args[ai][1]; ai += 1
            if v is POISON: raise Unsupported('PTX asm on undef operand')
            if c.isdigit(): ops[int(c)] = v
            else: ops[i] = v; widths[i] = 64 if c == 'l' else 32
        def rd(tok, wd):
            tok = tok.strip()
            if tok.startswith('$'):
                v = ops[int(tok[1:])]
                if v is None: raise Unsupported('PTX read of unset output operand')
                return v
            return int(tok, 0) & mask(wd)
        def wr(tok, v, guard=None, wd=32):
            i = int(tok.strip()[1:])
            if i >= nout: raise Unsupported('PTX asm writes an input operand')
            if guard is not None:
                old = ops[i]
                if old is None: raise Unsupported('predicated write to an unset operand')
                if isinstance(guard, bool):
                    if not guard: return
                else: v = z3.If(guard, tobv(v, widths[i]), tobv(old, widths[i]))
            ops[i] = v
        def cw(c, wd):
            if is_c(c): return c
            if z3.is_bool(c): return z3.If(c, z3.BitVecVal(1, wd), z3.BitVecVal(0, wd))
            return z3.ZeroExt(wd - c.size(), c) if c.size() < wd else c
        def addw(a, b, c, wd):
            c = cw(c, wd)
            if is_c(a) and is_c(b) and is_c(c): t = a + b + c; return t & mask(wd), t >> wd
            A = tobv(a, wd); B = tobv(b, wd); s1 = A + B; c1 = z3.ULT(s1, A)
            if is_c(c) and c == 0: return s1, c1
            C = tobv(c, wd); s2 = s1 + C; c2 = z3.ULT(s2, s1)
            return s2, z3.Or(c1, c2)
        def subw(a, b, c, wd):
            c = cw(c, wd)
            if is_c(a) and is_c(b) and is_c(c): t = a - b - c; return t & mask(wd), int(t < 0)
            A = tobv(a, wd); B = tobv(b, wd); d1 = A - B; b1 = z3.ULT(A, B)
            if is_c(c) and c == 0: return d1, b1
            C = tobv(c, wd); d2 = d1 - C; b2 = z3.ULT(d1, C)
            return d2, z3.Or(b1, b2)
        def mul32(a, b):
            if is_c(a) and is_c(b): return a * b
            return z3.ZeroExt(32, tobv(a, 32)) * z3.ZeroExt(32, tobv(b, 32))
        def lo(x): return x & mask(32) if is_c(x) else z3.Extract(31, 0, x)
        def hi(x): return x >> 32 if is_c(x) else z3.Extract(63, 32, x)
        for st in [x.strip() for x in re.split(r';', text) if x.strip()]:
            if st.startswith('{'):
                st = st[1:].strip()
                if not st: continue
            if st == '}': continue
            if st.startswith('.reg'):
                for nm in re.findall(r'%(\w+)', st): s.pred.pop(nm, None)
                continue
            guard = None
            if st.startswith('@'):
                g, st = st.split(None, 1); neg = g.startswith('@!'); nm = g.lstrip('@!').lstrip('%')
                if nm not in s.pred: raise Unsupported('PTX predicate %s used before set' % nm)
                g0 = s.pred[nm]
                guard = (not g0) if (neg and isinstance(g0, bool)) else (z3.Not(g0) if neg else g0)
            mn, rest = (st.split(None, 1) + [''])[:2]; o = [x.strip() for x in re.split(r',(?![^{]*\})', rest)] if rest else []
            parts = mn.split('.'); base = parts[0]
            wd = 64 if parts[-1] in ('u64', 'b64', 's64') else 32
            setcc = 'cc' in parts
            if base in ('add', 'addc'):
                if guard is not None and (setcc or base == 'addc'): raise Unsupported('predicated carry arithmetic')
                r, c = addw(rd(o[1], wd), rd(o[2], wd), s.cc if base == 'addc' else 0, wd); wr(o[0], r, guard, wd)
                if setcc: s.cc = c
            elif base in ('sub', 'subc'):
                if guard is not None and (setcc or base == 'subc'): raise Unsupported('predicated borrow arithmetic')
                r, c = subw(rd(o[1], wd), rd(o[2], wd), s.cc if base == 'subc' else 0, wd); wr(o[0], r, guard, wd)
                if setcc: s.cc = c
            elif base == 'mul':
                if guard is not None: raise Unsupported('predicated mul')
                pr = mul32(rd(o[1], 32), rd(o[2], 32)); wr(o[0], lo(pr) if 'lo' in parts else hi(pr))
            elif base in ('mad', 'madc'):
                if guard is not None: raise Unsupported('predicated mad')
                pr = mul32(rd(o[1], 32), rd(o[2], 32)); part = lo(pr) if 'lo' in parts else hi(pr)
                r, c = addw(part, rd(o[3], 32), s.cc if base == 'madc' else 0, 32); wr(o[0], r)
                if setcc: s.cc = c
            elif base == 'setp':
                a = rd(o[1], 32); b = rd(o[2], 32); cmp_ = parts[1]
                if cmp_ not in ('eq', 'ne'): raise Unsupported('setp.' + cmp_)
                if is_c(a) and is_c(b): c = (a == b) if cmp_ == 'eq' else (a != b)
                else: c = z3.simplify((tobv(a, 32) == tobv(b, 32)) if cmp_ == 'eq' else (tobv(a, 32) != tobv(b, 32)))
                pn = o[0].lstrip('%')
                # PTX: a predicated setp leaves the destination unchanged when the guard is false
                if guard is None: s.pred[pn] = c
                elif isinstance(guard, bool): s.pred[pn] = c if guard else s.pred.get(pn, False)
                else:
                    old = s.pred.get(pn, False)
                    s.pred[pn] = z3.If(guard, c if not isinstance(c, bool) else z3.BoolVal(c), old if not isinstance(old, bool) else z3.BoolVal(old))
            elif base == 'selp':
                pn = o[3].lstrip('%')
                if pn not in s.pred: raise Unsupported('selp predicate unset')
                a = rd(o[1], wd); b = rd(o[2], wd); pv = s.pred[pn]
                wr(o[0], (a if pv else b) if isinstance(pv, bool) else z3.If(pv, tobv(a, wd), tobv(b, wd)), guard, wd)
            elif base == 'mov':
                if o[1].startswith('{'):
                    l, h = [x.strip() for x in o[1].strip('{}').split(',')]; lv = rd(l, 32); hv = rd(h, 32)
                    v = (lv | (hv << 32)) if (is_c(lv) and is_c(hv)) else z3.Concat(tobv(hv, 32), tobv(lv, 32))
                else: v = rd(o[1], wd)
                wr(o[0], v, guard, wd)
            elif base == 'trap': raise Unsupported('PTX trap reached')
            else: raise Unsupported('PTX mnemonic ' + mn)
        outs = [ops[i] for i in range(nout)]
        if any(v is None for v in outs): raise Unsupported('PTX output operand never written')
        return outs[0] if nout == 1 else (outs if nout > 1 else None)
