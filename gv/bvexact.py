# Bit-precise twin of bv2int.T: the same goal/assumption callables are evaluated over wide two's-complement bit-vectors instead of integers,
# so that code which detects carries with bitwise formulas (and/or/xor of overlapping symbolic words, which the integer encoding can only
# over-approximate) is decided exactly by bit-blasting.  Used as the last member of the portfolio in smt.prove.
#  - every word is zero-extended to W = 256 bits; goal arithmetic (+, -, * by constants, comparisons) is then exact signed arithmetic as long
#    as magnitudes stay below 2^189, which holds for every specification in this project (sums of at most 2^8 products of 64-bit words)
#  - "x % p" (p the Goldilocks prime) is computed division-free by folding with 2^64 = 2^32 - 1 (mod p); the identity is checked at import
#  - products of two symbolic words are built at 128 bits; a goal with many of them is out of reach for a SAT solver and simply times out
import z3, contextlib

P = 2**64 - 2**32 + 1
E = 2**32 - 1
assert pow(2, 64, P) == E
W = 256

def modP(D):
    """exact D mod p for a W-bit two's-complement D with |D| < 2^(W-67); result zero-extended to W bits"""
    off = P << (W - 130)                                  # a multiple of p, about 2^(W-66): makes the value non-negative
    v = D + z3.BitVecVal(off, W); bits = W - 65           # 0 <= v < 2^bits
    v = z3.Extract(bits - 1, 0, v)
    while bits > 65:
        hb = bits - 64; nb = max(64, hb + 32) + 1
        hi = z3.Extract(bits - 1, 64, v); lo = z3.Extract(63, 0, v)
        hi_n = z3.ZeroExt(nb - hb, hi)
        v = z3.ZeroExt(nb - 64, lo) + (hi_n << 32) - hi_n  # lo + hi*(2^32-1) < 2^64 + 2^(hb+32) <= 2^nb
        bits = nb
    p1 = z3.BitVecVal(P, 65); p2 = z3.BitVecVal(2 * P, 65)
    r = z3.If(z3.UGE(v, p2), v - p2, z3.If(z3.UGE(v, p1), v - p1, v))   # v < 2^65 < 3p
    return z3.ZeroExt(W - 65, r)

_orig_mod = z3.BitVecRef.__mod__
def _mod(self, other):
    if isinstance(other, int) and other == P and self.size() == W: return modP(self)
    return _orig_mod(self, other)

@contextlib.contextmanager
def exact_mod():
    z3.BitVecRef.__mod__ = _mod
    try: yield
    finally: z3.BitVecRef.__mod__ = _orig_mod

class TBV:
    def __init__(s): s.side = []; s.vars = {}; s.nprod = 0; s.nsym = 0; s.nowrap_obl = []; s.approx = 0; s.nowrap = False
    def val(s, x):
        if isinstance(x, int): return z3.BitVecVal(x, W)
        if not z3.is_bv(x): raise NotImplementedError('non-word term in the bit-precise encoding')
        return z3.ZeroExt(W - x.size(), x) if x.size() < W else x
    def sval(s, x): return z3.SignExt(W - x.size(), x)
    def prod(s, a, b):
        if isinstance(a, int): a = z3.BitVecVal(a, 64)
        if isinstance(b, int): b = z3.BitVecVal(b, 64)
        n = max(a.size(), b.size())
        if n > 64: raise NotImplementedError('wide product in the bit-precise encoding')
        A = z3.ZeroExt(2 * n - a.size(), a); B = z3.ZeroExt(2 * n - b.size(), b)
        sa = z3.simplify(a); sb = z3.simplify(b)
        if not (z3.is_bv_value(sa) or z3.is_bv_value(sb)): s.nsym += 1
        s.nprod += 1
        return z3.ZeroExt(W - 2 * n, A * B), 0, ((1 << a.size()) - 1) * ((1 << b.size()) - 1)
    def bool(s, x):
        if not z3.is_bool(x): raise NotImplementedError('non-boolean assumption')
        if _has_int(x): raise NotImplementedError('integer-level atom in the bit-precise encoding')
        return x
    def int(s, x):
        if isinstance(x, int): return z3.BitVecVal(x, W)
        raise NotImplementedError('integer-sorted term in the bit-precise encoding')
    def any(s, c):
        if z3.is_bv(c): return s.val(c)
        if z3.is_bool(c): return s.bool(c)
        return s.int(c)

def _has_int(x, seen=None):
    seen = seen if seen is not None else set()
    todo = [x]
    while todo:
        t = todo.pop()
        if t.get_id() in seen: continue
        seen.add(t.get_id())
        if z3.is_int(t) or z3.is_real(t): return True
        todo.extend(t.children())
    return False

def consts(fs):
    """uninterpreted bit-vector constants occurring in the formulas: name -> term"""
    out = {}; seen = set(); todo = list(fs)
    while todo:
        t = todo.pop()
        if t.get_id() in seen: continue
        seen.add(t.get_id())
        if z3.is_const(t) and t.decl().kind() == z3.Z3_OP_UNINTERPRETED and z3.is_bv(t): out[t.decl().name()] = t
        todo.extend(t.children())
    return out
