# Automatic contracts for word-level helper functions met in field-level (F) mode.
#
# F mode executes the library over residue classes and relies on contracts for the functions that manipulate the bits of field words
# (Goldilocks::add/sub/mul, the AVX lane kernels, ...).  When the code under test routes its arithmetic through a helper the checker has no
# contract for (a refactoring that introduces its own 128-bit add/mul helper, a fused schoolbook product, a branch-free negation, ...),
# execution stops at the first bit-level operation on a field word.  Instead of giving up, the interpreter asks this module for a contract of
# the function it is in:
#   1. footprint: the function is run on concrete random words in a bit-precise sibling world; read-before-written cells and by-value
#      parameters are its inputs, written cells and the return value its outputs (the aliasing pattern of the actual call is reproduced)
#   2. conjecture: every output is fitted as a polynomial of degree <= 2 in the input classes modulo p (linear algebra over F_p on concrete runs)
#   3. proof: the function is executed symbolically (bit-precise, all 64-bit words) and   output ≡ polynomial(inputs) (mod p)   is proved by
#      the solver on every path.  Only then is the contract installed; the obligation that hit the helper is restarted and now passes through.
# The fit is only a way to find the statement; soundness rests on step 3, which is an ordinary universally quantified solver query.
import z3, random, time, itertools
from .interp import *
from . import interp as _ip

P = 2**64 - 2**32 + 1
AUTO = {}          # fname -> {key: contract}
FAILED = {}        # (fname, key) -> reason
LOG = []           # evidence: one dict per attempted inference
MAX_IN = 8; MAX_OUT = 12; PAD_WORDS = 40

class RestartObligation(Exception):
    """a new contract was installed: the current obligation is re-run from the start"""

class RecCells(dict):
    def __init__(s, *a): dict.__init__(s, *a); s.first_reads = set(); s.writes = set()
    def get(s, k, d=None):
        if k not in s.writes: s.first_reads.add(k)
        return dict.get(s, k, d)
    def __getitem__(s, k):
        if k not in s.writes: s.first_reads.add(k)
        return dict.__getitem__(s, k)
    def __setitem__(s, k, v): s.writes.add(k); dict.__setitem__(s, k, v)

EDGE = [0, 1, 2, 3, P - 1, P, P + 1, 2**32 - 1, 2**32, 2**63, 2**64 - 1, 0xFFFFFFFF00000000, 2**64 - 2**32 + 5]
def rword(rng):
    r = rng.random()
    if r < 0.25: return rng.choice(EDGE)
    if r < 0.4: return rng.getrandbits(8)
    return rng.getrandbits(64)

def layout(w, f, args):
    """key and parameter description of an actual call: ('val', concrete|None) or ('ptr', group, relative byte offset)"""
    groups = []; spec = []
    for (t, pn), a in zip(f.params, args):
        rt = w.rty(t)
        if rt.kind == 'ptr' or isinstance(a, Ptr):
            if not isinstance(a, Ptr) or a.obj is None: return None, None
            g = None
            for gi, (o, offs) in enumerate(groups):
                if o is a.obj:
                    if is_c(a.off) and all(is_c(x) for x in offs): g = gi
                    elif any((not is_c(x)) and (not is_c(a.off)) and z3.eq(x, a.off) for x in offs): g = gi
                    if g is not None: break
            if g is None: groups.append((a.obj, [a.off])); g = len(groups) - 1
            else: groups[g][1].append(a.off)
            spec.append(['ptr', g, a.off])
        elif rt.kind == 'int' and rt.bits in (64, 32, 8, 1):
            spec.append(['val', a if (is_c(a) and rt.bits < 64) else None, rt.bits])      # narrow constants (sizes, flags) specialise the contract; 64-bit words are always generalised
        else: return None, None
    # relative offsets inside each group
    bases = []
    for o, offs in groups:
        if all(is_c(x) for x in offs): bases.append(min(offs))
        else: bases.append(offs[0])
    key = []
    for sp in spec:
        if sp[0] == 'ptr':
            b = bases[sp[1]]
            rel = (sp[2] - b) if (is_c(sp[2]) and is_c(b)) else 0
            if rel % 8 or rel > 8 * 64: return None, None
            sp.append(rel); key.append(('p', sp[1], rel))
        else: key.append(('v', sp[1], sp[2]))
    return tuple(key), dict(spec=spec, groups=groups, bases=bases)

def bworld(w):
    from . import core
    bdir, mods = w._key
    wb = core.world(bdir, mods, key='autosum'); wb.reset(); wb.hooks = dict(wb.base_hooks); return wb

def attempt(it, name, f, args, exc):
    """called by Interp.call when a bit-level operation on a field word stopped the body of `name`.  Returns True if a contract was installed."""
    w = it.w
    if getattr(w, 'alg', None) is None or not hasattr(w, '_key'): return False
    key, lay = layout(w, f, args)
    if key is None: return False
    if (name, key) in FAILED or key in AUTO.get(name, {}): return False
    t0 = time.time(); rec = dict(function=name.lstrip('@'), key=str(key), trigger=str(exc)[:80])
    try:
        c = infer(w, name, f, key, lay, rec)
    except (Unsupported, Violation, Terminated, LoopCut, z3.Z3Exception, RecursionError, KeyError, IndexError, TypeError, AttributeError) as e:
        import traceback
        c = None; rec['failed'] = '%s: %s' % (type(e).__name__, str(e)[:120]); rec['where'] = traceback.format_exc()[-400:]
    rec['seconds'] = round(time.time() - t0, 2)
    LOG.append(rec)
    if c is None:
        FAILED[(name, key)] = rec.get('failed', 'no contract'); return False
    AUTO.setdefault(name, {})[key] = c
    return True

def trial_args(w, wb, f, key, fill):
    """fresh objects/values for one trial call; fill(kind, ident) -> value for ('cell', (g, idx)) / ('val', i).  Returns (args, objs)"""
    ng = 1 + max([k[1] for k in key if k[0] == 'p'] + [-1]); span = [0] * ng
    for k in key:
        if k[0] == 'p': span[k[1]] = max(span[k[1]], k[2] // 8)
    objs = []
    for g in range(ng):
        o = Obj(8 * (span[g] + PAD_WORDS), 'autosum_g%d' % g, 64); o.cells = RecCells(); objs.append(o)
    args = []
    for i, k in enumerate(key):
        if k[0] == 'p': args.append(Ptr(objs[k[1]], k[2]))
        else: args.append(k[1] if k[1] is not None else fill('val', i))
    return args, objs

def infer(w, name, f, key, lay, rec):
    wb = bworld(w); import zlib; rng = random.Random(zlib.crc32(name.encode()))
    ret_int = w.rty(f.ret).kind == 'int' and w.rty(f.ret).bits == 64 if f.ret is not None and str(f.ret) != 'void' else False
    # ---- 1. footprint on concrete runs
    ins_cells = set(); outs_cells = set(); val_ins = [i for i, k in enumerate(key) if k[0] == 'v' and k[1] is None]
    def concrete(cellvals, valvals, budget=60000):
        wb.reset(); wb.hooks = dict(wb.base_hooks); itb = Interp(wb)
        def fill(kind, ident): return valvals[ident] & mask(key[ident][2])
        a, objs = trial_args(w, wb, f, key, fill)
        for g, o in enumerate(objs):
            for c in range(o.size // 8): dict.__setitem__(o.cells, c, cellvals(g, c))
        old = wb.max_steps; wb.steps = 0; wb.max_steps = budget
        try: r = itb.call(name, a)
        finally: wb.max_steps = old
        return r, objs
    for trial in range(4):
        mem = {}
        def cv(g, c):
            if (g, c) not in mem: mem[(g, c)] = rword(rng)
            return mem[(g, c)]
        vv = {i: rword(rng) for i in val_ins}
        r, objs = concrete(cv, vv)
        for g, o in enumerate(objs):
            ins_cells |= {(g, c) for c in o.cells.first_reads}; outs_cells |= {(g, c) for c in o.cells.writes}
        if ret_int and not is_c(r): raise Unsupported('non-concrete return value on a concrete run')
    inputs = [('cell', gc) for gc in sorted(ins_cells)] + [('val', i) for i in val_ins]
    outputs = [('cell', gc) for gc in sorted(outs_cells)] + ([('ret', None)] if ret_int else [])
    rec['inputs'] = len(inputs); rec['outputs'] = len(outputs)
    if not outputs or not inputs or len(inputs) > MAX_IN or len(outputs) > MAX_OUT: raise Unsupported('footprint: %d inputs, %d outputs' % (len(inputs), len(outputs)))
    # ---- 2. polynomial conjecture (degree 1, then 2)
    def sample():
        xs = [rword(rng) for _ in inputs]
        mem = {inp[1]: x for inp, x in zip(inputs, xs) if inp[0] == 'cell'}
        vv = {inp[1]: x for inp, x in zip(inputs, xs) if inp[0] == 'val'}
        r, objs = concrete(lambda g, c: mem.get((g, c), 0xDEADBEEFCAFEF00D), vv)
        ys = []
        for o_ in outputs:
            v = r if o_[0] == 'ret' else dict.get(objs[o_[1][0]].cells, o_[1][1])
            if not is_c(v): raise Unsupported('non-concrete output')
            ys.append(v % P)
        return [x % P for x in xs], ys
    k = len(inputs); polys = None
    for deg in (1, 2):
        monos = [()] + [(i,) for i in range(k)] + ([(i, j) for i in range(k) for j in range(i, k)] if deg == 2 else [])
        S = [sample() for _ in range(len(monos) + 12)]
        rows = []
        for xs, ys in S:
            rows.append([1] + [xs[m[0]] if len(m) == 1 else xs[m[0]] * xs[m[1]] % P for m in monos[1:]] + ys)
        sol = solve_mod(rows, len(monos), len(outputs))
        if sol is None: continue
        # check on fresh samples
        good = True
        for _ in range(16):
            xs, ys = sample()
            mv = [1] + [xs[m[0]] if len(m) == 1 else xs[m[0]] * xs[m[1]] % P for m in monos[1:]]
            for oi in range(len(outputs)):
                if sum(c * v for c, v in zip(sol[oi], mv)) % P != ys[oi]: good = False
        if good: polys = [{m: c for m, c in zip(monos, sol[oi]) if c} for oi in range(len(outputs))]; break
    if polys is None: raise Unsupported('outputs are not polynomials of degree <= 2 in the input classes')
    rec['conjecture'] = [show_poly(pl, inputs) for pl in polys][:6]
    # ---- 3. proof on symbolic words
    from . import smt
    quad = {i for pl in polys for m in pl if len(m) == 2 for i in m}
    tmo = float(__import__('os').environ.get('GV_AUTOSUM_TMO', '40')); nq = 0; last = ''
    for mode, share in (('plain', 0.3), ('limbs', 0.7)):
        # plain 64-bit input symbols keep every product a single atom (fast when the code works on whole words); 32-bit limbs suit schoolbook code
        syms = [(z3.Concat(z3.BitVec('as_x%dh' % i, 32), z3.BitVec('as_x%dl' % i, 32)) if (i in quad and mode == 'limbs') else z3.BitVec('as_x%d' % i, 64)) for i in range(k)]
        def go(itb):
            def fill(kind, ident):
                sy = [sy for inp, sy in zip(inputs, syms) if inp == ('val', ident)][0]
                return sy if key[ident][2] == 64 else z3.Extract(key[ident][2] - 1, 0, sy)
            a, objs = trial_args(w, wb, f, key, fill)
            for inp, sy in zip(inputs, syms):
                if inp[0] == 'cell': dict.__setitem__(objs[inp[1][0]].cells, inp[1][1], sy)
            r = itb.call(name, a)
            return [r if o_[0] == 'ret' else dict.get(objs[o_[1][0]].cells, o_[1][1]) for o_ in outputs]
        wb.reset(); wb.hooks = dict(wb.base_hooks)
        paths = explore(wb, go, max_paths=64); okm = True
        for p_ in paths:
            if p_.status != 'ok': raise Unsupported('symbolic run of the helper ends in %s' % (p_.result,))
            for ov, pl in zip(p_.result, polys):
                if ov is None or isinstance(ov, (Ptr, FV, float)) or ov is POISON: raise Unsupported('an output is not written on some path')
                def goal(tr, ov=ov, pl=pl):
                    e = 0
                    for m, c in pl.items():
                        c_ = c if c <= P // 2 else c - P
                        t = 1 if not m else (tr.val(syms[m[0]]) if len(m) == 1 else tr.prod(syms[m[0]], syms[m[1]])[0])
                        e = e + c_ * t
                    return (tr.val(tobv(ov, 64)) - e) % P == 0
                r = smt.prove(goal, assumptions=list(p_.pc), timeout=tmo * share, bitprecise=(mode == 'limbs')); nq += 1
                if r.status != 'unsat': okm = False; last = '%s/%s' % (mode, r.status); break
            if not okm: break
        if okm: break
    else: raise Unsupported('conjectured contract not proved (%s)' % last)
    rec['proved'] = True; rec['paths'] = len(paths); rec['queries'] = nq
    return dict(inputs=inputs, outputs=outputs, polys=polys, key=key)

def solve_mod(rows, nm, no):
    """least-squares-exact: find coefficient vectors (one per output) with M·c = y mod p for all rows, or None"""
    A = [r[:] for r in rows]; n = len(A); piv = []; r0 = 0
    for c in range(nm):
        pr = None
        for r in range(r0, n):
            if A[r][c] % P: pr = r; break
        if pr is None: return None          # rank deficient on random samples: treat as no unique fit
        A[r0], A[pr] = A[pr], A[r0]
        inv = pow(A[r0][c], P - 2, P); A[r0] = [v * inv % P for v in A[r0]]
        for r in range(n):
            if r != r0 and A[r][c] % P:
                fct = A[r][c]; A[r] = [(v - fct * u) % P for v, u in zip(A[r], A[r0])]
        piv.append(c); r0 += 1
    for r in range(r0, n):
        if any(v % P for v in A[r][nm:]): return None      # inconsistent: not in the span
    return [[A[i][nm + oi] for i in range(nm)] for oi in range(no)]

def show_poly(pl, inputs):
    def nm(i): return 'x%d' % i
    out = []
    for m, c in list(pl.items())[:8]:
        cs = c if c <= P // 2 else c - P
        out.append('%s%s' % ('' if cs == 1 and m else ('-' if cs == -1 and m else str(cs) + ('·' if m else '')), '·'.join(nm(i) for i in m)))
    return ' + '.join(out) if out else '0'

def apply(it, name, f, args):
    """contract application in F mode; NotImplemented if no contract fits this call"""
    w = it.w; cs = AUTO.get(name)
    if not cs or getattr(w, 'alg', None) is None: return NotImplemented
    key, lay = layout(w, f, args)
    c = cs.get(key) if key is not None else None
    if c is None: return NotImplemented
    from .fmode import cls_of, wrap
    alg = w.alg
    def addr(gc):
        g, cell = gc; o = lay['groups'][g][0]; b = lay['bases'][g]
        off = (b + 8 * cell) if is_c(b) else z3.simplify(tobv(b, 64) + bvv(8 * cell, 64))
        return Ptr(o, off)
    xs = []
    for inp in c['inputs']:
        v = w.load_bytes(addr(inp[1]), 8)[0] if inp[0] == 'cell' else args[inp[1]]
        xs.append(v)
    if all(is_c(x) for x in xs): return NotImplemented           # concrete operands: run the real code
    X = [cls_of(x, name) for x in xs]; ret = None
    vals = []
    for pl in c['polys']:
        acc = 0
        for m, co in pl.items():
            t = co if not m else (alg.mul(co, X[m[0]]) if len(m) == 1 else alg.mul(co, alg.mul(X[m[0]], X[m[1]])))
            acc = alg.add(acc, t)
        vals.append(acc)
    for o_, v in zip(c['outputs'], vals):
        if o_[0] == 'ret': ret = wrap(v)
        else: w.store_bytes(addr(o_[1]), 8, [wrap(v)])
    if hasattr(w, 'contracts_used'): w.contracts_used.add('auto:' + name.lstrip('@')[:60])
    return ret
