# /repo working tree -> LLVM IR modules (+ native replay libraries), regenerated whenever a source changes.
import os, sys, re, json, hashlib, subprocess, shutil, time, pickle
from concurrent.futures import ThreadPoolExecutor

REPO = os.environ.get('GV_REPO', '/repo')
VERIF = os.path.dirname(os.path.dirname(os.path.abspath(__file__)))
OUT = os.path.join(VERIF, 'out')
SRC = os.path.join(REPO, 'src')

CLANG = 'clang++-14'
IRFLAGS = ['-std=c++17', '-O1', '-fno-inline', '-fno-vectorize', '-fno-slp-vectorize', '-fno-unroll-loops',
           '-fno-access-control', '-Wno-everything', '-I' + SRC, '-S', '-emit-llvm']
CONFIGS = {
    'avx2': ['-mavx2'],
    'avx512': ['-mavx2', '-mavx512f', '-D__AVX512__'],
    'omp': ['-mavx2', '-fopenmp'],
    'omp512': ['-mavx2', '-mavx512f', '-D__AVX512__', '-fopenmp'],
}
REPO_TUS = {'gbf': 'goldilocks_base_field.cpp', 'gce': 'goldilocks_cubic_extension.cpp',
            'ntt': 'ntt_goldilocks.cpp', 'pos': 'poseidon_goldilocks.cpp'}
CENSUS_HDRS = ['goldilocks_base_field.hpp', 'goldilocks_base_field_tools.hpp', 'goldilocks_base_field_scalar.hpp',
               'goldilocks_cubic_extension.hpp', 'poseidon_goldilocks.hpp', 'ntt_goldilocks.hpp', 'merklehash_goldilocks.hpp']
CENSUS_CLASSES = ('Goldilocks', 'Goldilocks3', 'PoseidonGoldilocks', 'MerklehashGoldilocks')


def run(cmd, **kw):
    r = subprocess.run(cmd, stdout=subprocess.PIPE, stderr=subprocess.PIPE, text=True, **kw)
    if r.returncode != 0:
        raise RuntimeError('command failed: %s\n%s' % (' '.join(cmd), r.stderr[-4000:]))
    return r.stdout


def tree_hash():
    h = hashlib.sha256()
    for root in (SRC, os.path.join(VERIF, 'harness')):
        for dp, dn, fn in sorted(os.walk(root)):
            for f in sorted(fn):
                p = os.path.join(dp, f)
                h.update(p.encode()); h.update(open(p, 'rb').read())
    h.update(open(os.path.abspath(__file__), 'rb').read())
    return h.hexdigest()[:16]


def split_json_stream(txt):
    dec = json.JSONDecoder(); i = 0; n = len(txt); out = []
    while i < n:
        while i < n and txt[i] in ' \n\r\t': i += 1
        if i >= n: break
        if txt[i] != '{':
            j = txt.find('\n', i); i = n if j < 0 else j + 1; continue
        o, i = dec.raw_decode(txt, i); out.append(o)
    return out


def census(bdir, cfg):
    """AST-driven list of every static method of the library classes (name, mangled name, type, parameter names)."""
    src = os.path.join(bdir, 'ast_%s.cpp' % cfg)
    open(src, 'w').write(''.join('#include "%s"\n' % h for h in CENSUS_HDRS))
    flags = [f for f in CONFIGS[cfg] if f != '-fopenmp']
    r = subprocess.run([CLANG, '-std=c++17', '-Wno-everything', '-I' + SRC, '-fsyntax-only', '-Xclang', '-ast-dump=json',
                        '-Xclang', '-ast-dump-filter=Goldilocks'] + flags + [src], stdout=subprocess.PIPE, stderr=subprocess.PIPE, text=True)
    if r.returncode != 0: raise RuntimeError('census failed: ' + r.stderr[-2000:])
    objs = split_json_stream(r.stdout)
    methods = []; seen = set()
    def is_def(m): return any(c.get('kind') == 'CompoundStmt' for c in m.get('inner', []))
    defs = set()
    for o in objs:
        if o.get('kind') == 'CXXMethodDecl' and is_def(o) and o.get('mangledName'): defs.add(o['mangledName'])
    for o in objs:
        if o.get('kind') == 'CXXRecordDecl' and o.get('name') in CENSUS_CLASSES and 'inner' in o:
            for m in o['inner']:
                if m.get('kind') != 'CXXMethodDecl' or m.get('isImplicit'): continue
                mg = m.get('mangledName')
                if not mg or mg in seen: continue
                seen.add(mg)
                if is_def(m): defs.add(mg)
                params = [(c.get('name', ''), c['type']['qualType']) for c in m.get('inner', []) if c.get('kind') == 'ParmVarDecl']
                methods.append(dict(cls=o['name'], name=m['name'], mangled=mg, type=m['type']['qualType'],
                                    static=(m.get('storageClass') == 'static'), params=params,
                                    line=m.get('loc', {}).get('line')))
    for m in methods: m['defined'] = m['mangled'] in defs
    return methods


def census_tu(methods):
    lines = ['#include <new>'] + ['#include "%s"' % h for h in CENSUS_HDRS]
    lines.append('extern "C" { void* gv_census_table[] = {')
    for m in methods:
        if not (m['static'] and m['defined']): continue
        t = m['type']; k = t.index('(')      # "ret (params)" -> "ret (*)(params)"
        # qualified names inside class scope need the class prefix
        ty = t[:k] + '(*)' + t[k:]
        for short in ('Element_avx512', 'Element_avx', 'Element'):
            pass
        lines.append('  (void*)static_cast<%s>(&%s::%s),' % (ty, m['cls'], m['name']))
    lines.append('  0 }; }')
    lines.append('extern "C" unsigned long gv_ntt_sizeof() { return sizeof(NTT_Goldilocks); }')
    lines.append('extern "C" void gv_ntt_construct(void* p, unsigned long maxDomain, unsigned nThreads, int ext) { new (p) NTT_Goldilocks(maxDomain, nThreads, ext); }')
    lines.append('extern "C" void gv_ntt_destroy(NTT_Goldilocks* p) { p->~NTT_Goldilocks(); }')
    return '\n'.join(lines) + '\n'


CUDA_SHIM = r'''
#define __USE_CUDA__ 1
#define __device__ __attribute__((device))
#define __host__ __attribute__((host))
#define __global__ __attribute__((global))
#define __constant__ __attribute__((constant))
#define __shared__ __attribute__((shared))
#define __forceinline__ __inline__
#define __noinline__ __attribute__((noinline))
#include <stddef.h>
#include <stdint.h>
struct uint3_{unsigned x,y,z;};
extern const __device__ uint3_ threadIdx;
#define NDEBUG 1
#include <cassert>
#include "gl64_t.cuh"
extern "C" {
__device__ __attribute__((noinline)) uint64_t w_add(uint64_t a, uint64_t b){ gl64_t x, y; x.set_val(a); y.set_val(b); x += y; return x.get_val(); }
__device__ __attribute__((noinline)) uint64_t w_sub(uint64_t a, uint64_t b){ gl64_t x, y; x.set_val(a); y.set_val(b); x -= y; return x.get_val(); }
__device__ __attribute__((noinline)) uint64_t w_mul(uint64_t a, uint64_t b){ gl64_t x, y; x.set_val(a); y.set_val(b); x *= y; return x.get_val(); }
__device__ __attribute__((noinline)) uint64_t w_mul32(uint64_t a, uint32_t b){ gl64_t x; x.set_val(a); x *= b; return x.get_val(); }
__device__ __attribute__((noinline)) uint64_t w_neg(uint64_t a){ gl64_t x; x.set_val(a); x = -x; return x.get_val(); }
__device__ __attribute__((noinline)) uint64_t w_cneg(uint64_t a, int flag){ gl64_t x; x.set_val(a); x = x.cneg((bool)flag); return x.get_val(); }
__device__ __attribute__((noinline)) uint64_t w_sqr(uint64_t a){ gl64_t x; x.set_val(a); x.sqr(); return x.get_val(); }
__device__ __attribute__((noinline)) uint64_t w_to(uint64_t a){ gl64_t x; x.set_val(a); x.to(); return x.get_val(); }
__device__ __attribute__((noinline)) uint64_t w_binadd(uint64_t a, uint64_t b){ gl64_t x, y; x.set_val(a); y.set_val(b); gl64_t z = x + y; return z.get_val(); }
__device__ __attribute__((noinline)) uint64_t w_binsub(uint64_t a, uint64_t b){ gl64_t x, y; x.set_val(a); y.set_val(b); gl64_t z = x - y; return z.get_val(); }
__device__ __attribute__((noinline)) uint64_t w_binmul(uint64_t a, uint64_t b){ gl64_t x, y; x.set_val(a); y.set_val(b); gl64_t z = x * y; return z.get_val(); }
}
'''

def patch_cuda(text):
    """Mechanical, documented text patch of a scratch copy of gl64_t.cuh so that clang's CUDA front end accepts it:
       (1) in asm statements that have operands, literal PTX registers written with a single '%' (%top, %dif, ...; nvcc accepts them) become '%%name'
           (clang follows the GCC rule that '%' must be doubled there); operand-less statements are left alone (there '%' is literal in both);
       (2) a missing comma between two operands of one statement is added."""
    diffs = []; out = []; pos = 0
    for mm in re.finditer(r'\basm\s*(volatile\s*)?\(', text):
        st = mm.end(); depth = 1; k = st; instr = False
        while k < len(text) and depth:
            c = text[k]
            if instr:
                if c == '\\': k += 1
                elif c == '"': instr = False
            else:
                if c == '"': instr = True
                elif c == '(': depth += 1
                elif c == ')': depth -= 1
            k += 1
        body = text[st:k - 1]
        # operands present?  a ':' outside the string literals
        outside = re.sub(r'"(?:[^"\\\\]|\\\\.)*"', '""', body)
        if ':' not in outside or mm.start() < pos: continue
        def fix(lit):
            return re.sub(r'(?<!%)%([A-Za-z_][A-Za-z_0-9]*)', r'%%\1', lit.group(0))
        body2 = re.sub(r'"(?:[^"\\\\]|\\\\.)*"', fix, body)
        # only the template part (before the first ':' outside strings) may be rewritten; constraint strings never contain such names, so this is safe
        body2 = re.sub(r'"\+l"\(tmp\)\s+"=r"\(carry\)', '"+l"(tmp), "=r"(carry)', body2)
        if body2 != body: diffs.append((' '.join(body.split())[:160], ' '.join(body2.split())[:160]))
        out.append(text[pos:st]); out.append(body2); pos = k - 1
    out.append(text[pos:])
    return ''.join(out), diffs


def build(verbose=False):
    """Returns the build directory for the current working tree of /repo (building it if necessary)."""
    h = tree_hash(); bdir = os.path.join(OUT, 'build', h)
    stamp = os.path.join(bdir, 'OK')
    if os.path.exists(stamp):
        try: os.utime(stamp)
        except OSError: pass
        return bdir
    # one builder at a time (checks may be started concurrently on a tree nobody has built yet); the others wait and then find the stamp
    import fcntl
    os.makedirs(os.path.join(OUT, 'build'), exist_ok=True)
    lock = open(os.path.join(OUT, 'build.lock'), 'w'); fcntl.flock(lock, fcntl.LOCK_EX)
    try: return _build_locked(h, bdir, stamp, verbose)
    finally: fcntl.flock(lock, fcntl.LOCK_UN); lock.close()

KEEP_BUILDS = 3
def _build_locked(h, bdir, stamp, verbose):
    if os.path.exists(stamp): return bdir
    t0 = time.time()
    # prune: unfinished directories and all but the most recently used finished ones (never one used in the last 45 minutes)
    root = os.path.join(OUT, 'build'); done = []
    for d in os.listdir(root):
        dd = os.path.join(root, d)
        if not os.path.isdir(dd) or d == h: continue
        st = os.path.join(dd, 'OK')
        if os.path.exists(st): done.append((os.path.getmtime(st), dd))
        else: shutil.rmtree(dd, ignore_errors=True)      # a crashed build (builders are serialised by the lock)
    done.sort(reverse=True)
    for mt, dd in done[KEEP_BUILDS - 1:]:
        if time.time() - mt > 2700: shutil.rmtree(dd, ignore_errors=True)      # 45 min: longer than the longest check (C18 thorough, about 26 min) keeps a build in use
    if os.path.isdir(bdir): shutil.rmtree(bdir, ignore_errors=True)
    os.makedirs(bdir, exist_ok=True)
    jobs = []
    meta = {'hash': h, 'ir': {}, 'census': {}}
    cens = {}
    for cfg in ('avx2', 'avx512'):
        cens[cfg] = census(bdir, cfg)
        json.dump(cens[cfg], open(os.path.join(bdir, 'census_%s.json' % cfg), 'w'))
        open(os.path.join(bdir, 'census_%s.cpp' % cfg), 'w').write(census_tu(cens[cfg]))
    for cfg, fl in CONFIGS.items():
        for tag, f in REPO_TUS.items():
            jobs.append(([CLANG] + IRFLAGS + fl + [os.path.join(SRC, f), '-o', os.path.join(bdir, '%s_%s.ll' % (tag, cfg))], None))
        base = 'avx512' if '512' in cfg else 'avx2'
        jobs.append(([CLANG] + IRFLAGS + fl + [os.path.join(bdir, 'census_%s.cpp' % base), '-o', os.path.join(bdir, 'cen_%s.ll' % cfg)], None))
    # native replay libraries (flags of the repo's Makefile)
    for cfg in ('avx2', 'avx512'):
        fl = [f for f in CONFIGS[cfg]]
        jobs.append((['g++', '-std=c++17', '-O3', '-fopenmp', '-fPIC', '-shared', '-fno-access-control', '-w', '-I' + SRC] + fl +
                     [os.path.join(bdir, 'census_%s.cpp' % cfg)] + [os.path.join(SRC, f) for f in REPO_TUS.values()] +
                     ['-lgmp', '-o', os.path.join(bdir, 'libreplay_%s.so' % cfg)], None))
    # CUDA device-only IR of gl64_t.cuh (patched scratch copy)
    cu = os.path.join(bdir, 'cu'); os.makedirs(cu, exist_ok=True)
    cuh = os.path.join(SRC, 'gl64_t.cuh')
    if os.path.exists(cuh):
        patched, diffs = patch_cuda(open(cuh).read())
        open(os.path.join(cu, 'gl64_t.cuh'), 'w').write(patched)
        json.dump(diffs, open(os.path.join(cu, 'patch_diff.json'), 'w'), indent=1)
        open(os.path.join(cu, 'shim.cu'), 'w').write(CUDA_SHIM)
        for arch in ('sm_60', 'sm_70'):
            jobs.append(([CLANG, '-x', 'cuda', '--cuda-device-only', '--cuda-gpu-arch=' + arch, '-nocudainc', '-nocudalib', '-std=c++17', '-O1',
                          '-fno-inline', '-Wno-everything', '-I' + cu, '-S', '-emit-llvm', os.path.join(cu, 'shim.cu'), '-o', os.path.join(bdir, 'gl64_%s.ll' % arch)], 'cuda'))
    errs = []
    def do(j):
        cmd, tag = j
        try: run(cmd)
        except Exception as e:
            errs.append((tag, str(e)))
    with ThreadPoolExecutor(16) as ex: list(ex.map(do, jobs))
    hard = [e for t, e in errs if t != 'cuda']
    if hard: raise RuntimeError('build failed:\n' + '\n'.join(hard))
    meta['cuda_errors'] = [e for t, e in errs if t == 'cuda']
    meta['build_s'] = round(time.time() - t0, 1)
    json.dump(meta, open(os.path.join(bdir, 'meta.json'), 'w'))
    open(stamp, 'w').write('ok')
    if verbose: print('build: %s in %.1fs' % (bdir, time.time() - t0), file=sys.stderr)
    return bdir


_modcache = {}
def module(bdir, name):
    """Parsed IR module (cached in-process and pickled next to the .ll)."""
    from . import llparse
    key = (bdir, name)
    if key in _modcache: return _modcache[key]
    ll = os.path.join(bdir, name + '.ll'); pk = ll + '.pickle'
    if os.path.exists(pk):
        try:
            m = pickle.load(open(pk, 'rb')); _modcache[key] = m; return m
        except Exception: pass
    m = llparse.parse_module(open(ll).read())
    m.ir_hash = hashlib.sha256(open(ll, 'rb').read()).hexdigest()[:16]
    try:
        tmp = pk + '.%d' % os.getpid(); pickle.dump(m, open(tmp, 'wb')); os.replace(tmp, pk)
    except Exception: pass
    _modcache[key] = m; return m


if __name__ == '__main__':
    print(build(verbose=True))
