# text parser for LLVM-14 typed-pointer IR (subset sufficient for the goldilocks TUs)
import re, sys

TOK = re.compile(r'''
   (?P<ws>\s+|;[^\n]*)
 | (?P<str>c?"(?:[^"\\]|\\.)*")
 | (?P<lvar>%(?:"(?:[^"\\]|\\.)*"|[-a-zA-Z$._0-9]+))
 | (?P<gvar>@(?:"(?:[^"\\]|\\.)*"|[-a-zA-Z$._0-9]+))
 | (?P<meta>![-a-zA-Z$._0-9]*|!\{|!"(?:[^"\\]|\\.)*")
 | (?P<attr>\#[0-9]+)
 | (?P<hexfp>0x[KLMHR]?[0-9A-Fa-f]+)
 | (?P<fp>-?[0-9]+\.[0-9]*(?:e[+-]?[0-9]+)?)
 | (?P<int>-?[0-9]+)
 | (?P<dots>\.\.\.)
 | (?P<word>[a-zA-Z_][a-zA-Z_0-9.]*)
 | (?P<punct>[=,(){}\[\]<>*:|])
''', re.X)

def lex(s):
    out=[]; i=0; n=len(s)
    while i<n:
        m=TOK.match(s,i)
        if not m: raise SyntaxError('lex error at %r'%s[i:i+40])
        i=m.end(); k=m.lastgroup
        if k=='ws': continue
        out.append((k,m.group(k)))
    return out

# ---------------- types
class Ty:
    def __init__(s,kind,**kw): s.kind=kind; s.__dict__.update(kw)
    def __repr__(s):
        k=s.kind
        if k=='int': return 'i%d'%s.bits
        if k in('float','double','void','label','metadata','x86_fp80','opaque'): return k
        if k=='ptr': return '%r*'%s.to
        if k=='vec': return '<%d x %r>'%(s.n,s.el)
        if k=='arr': return '[%d x %r]'%(s.n,s.el)
        if k=='struct': return ('<{%s}>' if s.packed else '{%s}')%', '.join(map(repr,s.els))
        if k=='named': return s.name
        if k=='func': return '%r (%s)'%(s.ret,', '.join(map(repr,s.args))+(', ...' if s.vararg else ''))
        return k
def I(b): return Ty('int',bits=b)

class P:
    def __init__(s,toks,mod=None): s.t=toks; s.i=0; s.mod=mod
    def peek(s,o=0): return s.t[s.i+o] if s.i+o<len(s.t) else ('eof','')
    def next(s): x=s.t[s.i]; s.i+=1; return x
    def accept(s,v):
        if s.peek()[1]==v: s.i+=1; return True
        return False
    def expect(s,v):
        x=s.next()
        if x[1]!=v: raise SyntaxError('expected %r got %r near %r'%(v,x,s.t[max(0,s.i-6):s.i+4]))
    def ty(s):
        k,v=s.next()
        if k=='word':
            if re.fullmatch(r'i[0-9]+',v): t=I(int(v[1:]))
            elif v in('float','double','void','label','metadata','x86_fp80','half','opaque','ptr','token'): t=Ty(v)
            else: raise SyntaxError('type? %r'%v)
        elif k=='lvar': t=Ty('named',name=v)
        elif v=='<':
            if s.peek()[1]=='{':
                s.next(); els=s.tylist('}'); s.expect('>'); t=Ty('struct',els=els,packed=True)
            else:
                n=int(s.next()[1]); s.expect('x'); el=s.ty(); s.expect('>'); t=Ty('vec',n=n,el=el)
        elif v=='[':
            n=int(s.next()[1]); s.expect('x'); el=s.ty(); s.expect(']'); t=Ty('arr',n=n,el=el)
        elif v=='{':
            els=s.tylist('}'); t=Ty('struct',els=els,packed=False)
        else: raise SyntaxError('type? %r %r'%(k,v))
        while True:
            if s.peek()[1]=='*': s.next(); t=Ty('ptr',to=t)
            elif s.peek()[1]=='(' :
                # function type
                s.next(); args=[]; va=False
                while not s.accept(')'):
                    if s.peek()[0]=='dots': s.next(); va=True
                    else: args.append(s.ty())
                    s.accept(',')
                t=Ty('func',ret=t,args=args,vararg=va)
            else: break
        return t
    def tylist(s,close):
        els=[]
        while not s.accept(close):
            els.append(s.ty()); s.accept(',')
        return els
    # ---- values: returns ('kind', payload)
    PARAM_ATTRS={'noundef','nonnull','noalias','nocapture','readonly','readnone','writeonly','signext','zeroext','returned','immarg','inreg','nofree','nest','swiftself','sret','byval','inalloca','dereferenceable','dereferenceable_or_null','align','elementtype','noundef','captures'}
    def skip_param_attrs(s):
        while True:
            k,v=s.peek()
            if k=='word' and v in s.PARAM_ATTRS:
                s.next()
                if s.peek()[1]=='(':
                    d=0
                    while True:
                        x=s.next()[1]
                        if x=='(': d+=1
                        elif x==')':
                            d-=1
                            if d==0: break
                elif v=='align' and s.peek()[0]=='int': s.next()
            else: break
    def val(s,t):
        k,v=s.next()
        if k=='lvar': return ('local',v)
        if k=='gvar': return ('global',v)
        if k=='int': return ('int',int(v))
        if k=='fp': return ('fp',float(v))
        if k=='hexfp':
            import struct
            return ('fp',struct.unpack('>d',bytes.fromhex(v[2:].rjust(16,'0')))[0]) if v[2] not in 'KLMHR' else ('fp',0.0)
        if k=='str': return ('cstr',v)
        if k=='word':
            if v in('true','false'): return ('int',1 if v=='true' else 0)
            if v in('null','undef','poison','zeroinitializer','none'): return (v,None)
            if v in('getelementptr','bitcast','ptrtoint','inttoptr','addrspacecast','trunc','zext','sext','add','sub','mul','icmp','select','and','or','xor','shl','lshr'):
                return s.constexpr(v)
            raise SyntaxError('value? %r'%v)
        if v=='<':
            if s.peek()[1]=='{':
                s.next(); els=s.tvlist('}'); s.expect('>'); return ('cstruct',els)
            els=s.tvlist('>'); return ('cvec',els)
        if v=='[': return ('carr',s.tvlist(']'))
        if v=='{': return ('cstruct',s.tvlist('}'))
        raise SyntaxError('value? %r %r'%(k,v))
    def tvlist(s,close):
        els=[]
        while not s.accept(close):
            t=s.ty(); els.append((t,s.val(t))); s.accept(',')
        return els
    def tv(s):
        t=s.ty(); s.skip_param_attrs(); return (t,s.val(t))
    def constexpr(s,op):
        flags=[]
        while s.peek()[1] in('inbounds','nuw','nsw','exact'): flags.append(s.next()[1])
        s.expect('(')
        if op=='getelementptr':
            bt=s.ty(); s.expect(','); ops=[]
            while True:
                ops.append(s.tv())
                if not s.accept(','): break
            s.expect(')'); return ('ce_gep',(bt,ops))
        if op in('bitcast','ptrtoint','inttoptr','addrspacecast','trunc','zext','sext'):
            x=s.tv(); s.expect('to'); t=s.ty(); s.expect(')'); return ('ce_cast',(op,x,t))
        raise SyntaxError('constexpr '+op)

class Instr:
    def __init__(s,**kw): s.__dict__.update(kw)
    def __repr__(s): return '<%s %s>'%(s.op, s.res)

class Func:
    def __init__(s,name,ret,params,blocks,order,internal=False): s.name=name; s.ret=ret; s.params=params; s.blocks=blocks; s.order=order

class Module:
    def __init__(s): s.types={}; s.globals={}; s.funcs={}; s.decls={}; s.datalayout=''

BINOPS={'add','sub','mul','udiv','sdiv','urem','srem','shl','lshr','ashr','and','or','xor','fadd','fsub','fmul','fdiv'}
CASTS={'trunc','zext','sext','bitcast','ptrtoint','inttoptr','fptoui','fptosi','uitofp','sitofp','fpext','fptrunc','addrspacecast'}
FMF={'fast','nnan','ninf','nsz','arcp','contract','afn','reassoc'}

def parse_instr(p):
    res=None
    if p.peek()[0]=='lvar' and p.peek(1)[1]=='=':
        res=p.next()[1]; p.next()
    k,op=p.next()
    if op in('tail','musttail','notail'): k,op=p.next()
    ins=Instr(op=op,res=res)
    if op in BINOPS:
        ins.flags=[]
        while p.peek()[1] in('nuw','nsw','exact') or p.peek()[1] in FMF: ins.flags.append(p.next()[1])
        ins.ty=p.ty(); ins.a=p.val(ins.ty); p.expect(','); ins.b=p.val(ins.ty)
    elif op in CASTS:
        ins.src=p.tv(); p.expect('to'); ins.ty=p.ty()
    elif op in('icmp','fcmp'):
        while p.peek()[1] in FMF: p.next()
        ins.pred=p.next()[1]; ins.ty=p.ty(); ins.a=p.val(ins.ty); p.expect(','); ins.b=p.val(ins.ty)
    elif op=='select':
        while p.peek()[1] in FMF: p.next()
        ins.c=p.tv(); p.expect(','); ins.a=p.tv(); p.expect(','); ins.b=p.tv()
    elif op=='load':
        ins.atomic=bool(p.accept('atomic')); p.accept('volatile'); ins.ty=p.ty(); p.expect(','); ins.ptr=p.tv(); ins.align=None
        if p.peek()[1]=='syncscope':
            p.next(); p.expect('('); p.next(); p.expect(')')
        while p.peek()[1] in('unordered','monotonic','acquire','release','acq_rel','seq_cst'): p.next()
        if p.accept(','):
            if p.accept('align'): ins.align=int(p.next()[1])
    elif op=='store':
        ins.atomic=bool(p.accept('atomic')); p.accept('volatile'); ins.v=p.tv(); p.expect(','); ins.ptr=p.tv(); ins.align=None
        if p.peek()[1]=='syncscope':
            p.next(); p.expect('('); p.next(); p.expect(')')
        while p.peek()[1] in('unordered','monotonic','acquire','release','acq_rel','seq_cst'): p.next()
        if p.accept(','):
            if p.accept('align'): ins.align=int(p.next()[1])
    elif op=='alloca':
        ins.ty=p.ty(); ins.n=None; ins.align=None
        while p.accept(','):
            if p.accept('align'): ins.align=int(p.next()[1])
            elif p.peek()[0]=='word' and p.peek()[1]=='addrspace': break
            else: ins.n=p.tv()
    elif op=='getelementptr':
        ins.inbounds=p.accept('inbounds'); ins.bt=p.ty(); p.expect(','); ins.ops=[]
        while True:
            ins.ops.append(p.tv())
            if not p.accept(','): break
    elif op=='phi':
        while p.peek()[1] in FMF: p.next()
        ins.ty=p.ty(); ins.inc=[]
        while True:
            p.expect('['); v=p.val(ins.ty); p.expect(','); l=p.next()[1]; p.expect(']'); ins.inc.append((v,l))
            if not p.accept(','): break
    elif op=='br':
        if p.accept('label'): ins.cond=None; ins.t=p.next()[1]
        else:
            ins.cond=p.tv(); p.expect(','); p.expect('label'); ins.t=p.next()[1]; p.expect(','); p.expect('label'); ins.f=p.next()[1]
    elif op=='switch':
        ins.v=p.tv(); p.expect(','); p.expect('label'); ins.default=p.next()[1]; p.expect('['); ins.cases=[]
        while not p.accept(']'):
            c=p.tv(); p.expect(','); p.expect('label'); ins.cases.append((c,p.next()[1]))
    elif op=='ret':
        if p.accept('void'): ins.v=None
        else: ins.v=p.tv()
    elif op in('call','invoke'):
        while p.peek()[1] in FMF or p.peek()[1] in('fastcc','ccc','coldcc','ptx_kernel','ptx_device'): p.next()
        p.skip_param_attrs()
        ins.rty=p.ty()
        # callee: either asm or value
        if p.peek()[1]=='asm':
            p.next(); ins.asm_flags=[]
            while p.peek()[1] in('sideeffect','alignstack','inteldialect','unwind'): ins.asm_flags.append(p.next()[1])
            ins.asm=p.next()[1]; p.expect(','); ins.constraints=p.next()[1]; ins.callee=None
        else:
            ins.callee=p.val(None); ins.asm=None
        p.expect('('); ins.args=[]
        while not p.accept(')'):
            t=p.ty(); p.skip_param_attrs(); ins.args.append((t,p.val(t))); p.accept(',')
        # trailing attrs / operand bundles
        while p.peek()[0] in('attr',) or (p.peek()[0]=='word' and p.peek()[1] in('nounwind','readnone','readonly','noreturn','cold','willreturn','nofree','nosync','argmemonly','inaccessiblememonly','speculatable','builtin','nobuiltin','allocsize','mustprogress','noinline','alwaysinline','convergent')):
            p.next()
            if p.peek()[1]=='(':
                while p.next()[1]!=')': pass
        if op=='invoke':
            p.expect('to'); p.expect('label'); ins.normal=p.next()[1]; p.expect('unwind'); p.expect('label'); ins.unwind=p.next()[1]
    elif op in('extractvalue','insertvalue'):
        ins.agg=p.tv(); p.expect(',')
        if op=='insertvalue': ins.v=p.tv(); p.expect(',')
        ins.idx=[]
        while p.peek()[0]=='int':
            ins.idx.append(int(p.next()[1]))
            if not (p.peek()[1]==',' and p.peek(1)[0]=='int'): break
            p.next()
    elif op=='extractelement':
        ins.v=p.tv(); p.expect(','); ins.idx=p.tv()
    elif op=='insertelement':
        ins.v=p.tv(); p.expect(','); ins.e=p.tv(); p.expect(','); ins.idx=p.tv()
    elif op=='shufflevector':
        ins.a=p.tv(); p.expect(','); ins.b=p.tv(); p.expect(','); ins.mask=p.tv()
    elif op=='landingpad':
        ins.ty=p.ty(); ins.clauses=[]
        while p.peek()[1] in('cleanup','catch','filter'):
            c=p.next()[1]
            if c!='cleanup': ins.clauses.append((c,p.tv()))
            else: ins.clauses.append((c,None))
    elif op=='resume': ins.v=p.tv()
    elif op=='unreachable': pass
    elif op=='fneg': ins.ty=p.ty(); ins.a=p.val(ins.ty)
    elif op=='freeze': ins.src=p.tv()
    else: raise SyntaxError('opcode %r'%op)
    # trailing metadata
    while p.accept(','):
        if p.peek()[0]=='meta':
            p.next()
            if p.peek()[0]=='meta': p.next()
        else: raise SyntaxError('trailing %r in %s'%(p.peek(),op))
    return ins

def parse_module(text):
    mod=Module()
    lines=text.split('\n'); i=0; n=len(lines)
    while i<n:
        ln=lines[i]; i+=1
        st=ln.strip()
        if not st or st.startswith(';') or st.startswith('!') or st.startswith('attributes ') or st.startswith('source_filename') or st.startswith('target triple') or st.startswith('$') or st.startswith('module asm'): continue
        if st.startswith('target datalayout'): mod.datalayout=st.split('"')[1]; continue
        if st.startswith('%') and ' = type ' in st:
            p=P(lex(st)); name=p.next()[1]; p.expect('='); p.expect('type')
            mod.types[name]=Ty('opaque') if p.peek()[1]=='opaque' else p.ty(); continue
        if st.startswith('@'):
            p=P(lex(st)); name=p.next()[1]; p.expect('=')
            attrs=[]
            while p.peek()[0]=='word' and p.peek()[1] not in('global','constant','alias','ifunc'):
                w=p.next()[1]; attrs.append(w)
                if p.peek()[1]=='(':   # e.g. thread_local(...)
                    while p.next()[1]!=')': pass
            kind=p.next()[1]
            if kind in('alias','ifunc'): continue
            t=p.ty(); init=None
            if p.peek()[0]!='eof' and p.peek()[1]!=',': init=p.val(t)
            align=None
            while p.accept(','):
                if p.accept('align'): align=int(p.next()[1])
                else:
                    while p.peek()[0]!='eof' and p.peek()[1]!=',': p.next()
            mod.globals[name]=dict(ty=t,init=init,const=(kind=='constant'),align=align,attrs=attrs); continue
        if st.startswith('declare'):
            m=re.search(r'@(?:"[^"]*"|[-a-zA-Z$._0-9]+)',st); mod.decls[m.group(0)]=st; continue
        if st.startswith('define'):
            hdr=st
            p=P(lex(hdr[:hdr.rindex('{')]))
            p.expect('define')
            while p.peek()[0]=='word' and not re.fullmatch(r'i[0-9]+|void|float|double',p.peek()[1]) :
                w=p.next()[1]
                if p.peek()[1]=='(' and w in('dereferenceable','dereferenceable_or_null','align'):
                    while p.next()[1]!=')': pass
                elif w=='align' and p.peek()[0]=='int': p.next()
            # return attrs may follow; handle 'noundef' etc consumed above; now type
            ret=p.ty();
            while p.peek()[0]!='gvar':
                x=p.next()
                if x[1]=='(':
                    while p.next()[1]!=')': pass
            name=p.next()[1]; p.expect('('); params=[]
            while not p.accept(')'):
                if p.peek()[0]=='dots': p.next(); continue
                t=p.ty(); p.skip_param_attrs(); pn=p.next()[1] if p.peek()[0]=='lvar' else None; params.append((t,pn)); p.accept(',')
            # implicit numbering of unnamed params
            cnt=0
            for k,(t,pn) in enumerate(params):
                if pn is None: params[k]=(t,'%%%d'%cnt)
                if params[k][1]=='%%%d'%cnt: cnt+=1
            blocks={}; order=[]; cur='%%%d'%cnt if True else None
            # first block label: implicit unless explicit label line follows
            first=True; body=[]
            while i<n:
                ln=lines[i]; i+=1; st=ln.strip()
                if st=='}': break
                if not st or st.startswith(';'): continue
                m=re.match(r'^([-a-zA-Z$._0-9]+|"[^"]*"):',st)
                if m:
                    lab='%'+m.group(1)
                    if body or not first: blocks[cur]=body; order.append(cur)
                    cur=lab; body=[]; first=False; continue
                first=False
                # multi-line instruction (invoke ... \n to label, switch [ ... ])
                while i<n and (lines[i].strip().startswith('to label') or lines[i].strip().startswith('catch ') or lines[i].strip().startswith('cleanup') or lines[i].strip().startswith('filter ') or (st.startswith('switch') and not st.rstrip().endswith(']')) or (re.match(r'^\s+i[0-9]+ -?[0-9]+, label',lines[i]) ) or lines[i].strip()==']'):
                    st+=' '+lines[i].strip(); i+=1
                try: body.append(parse_instr(P(lex(st))))
                except Exception as e: raise SyntaxError('%s\n  in: %s'%(e,st[:300]))
            blocks[cur]=body; order.append(cur)
            mod.funcs[name]=Func(name,ret,params,blocks,order); continue
        raise SyntaxError('top-level? %r'%st[:120])
    return mod

if __name__=='__main__':
    import time
    for f in sys.argv[1:]:
        t0=time.time(); m=parse_module(open(f).read())
        print(f,'types',len(m.types),'globals',len(m.globals),'funcs',len(m.funcs),'decls',len(m.decls),'instrs',sum(len(b) for fn in m.funcs.values() for b in fn.blocks.values()),round(time.time()-t0,2),'s')
