# World factory + common helpers shared by the property modules.
import z3, time, os, json, ctypes
from . import build, stubs
from .interp import *

_worlds = {}
def world(bdir, mods, gmp=True, key=None):
    """a (cached per process) World over the named IR modules, global constructors executed, state frozen"""
    k = (bdir, tuple(mods), gmp, key)
    if k in _worlds:
        w = _worlds[k]; w.reset(); return w
    w = World([build.module(bdir, m) for m in mods]); w._key = (bdir, tuple(mods))
    stubs.install(w)
    if gmp: stubs.install_gmp(w)
    it = Interp(w)
    for f in list(w.funcs):
        if f.startswith('@_GLOBAL__sub_I_'): it.call(f, [])
    w.freeze(); w.base_hooks = dict(w.hooks); _worlds[k] = w; return w

def obj_words(name, vals, align=64, kind='arg'):
    o = Obj(8 * len(vals), name, align, kind)
    for i, v in enumerate(vals): o.cells[i] = v
    return o
def words(o, n=None, start=0):
    n = (o.size // 8 - start) if n is None else n
    return [o.cells.get(start + i) for i in range(n)]

def bv64(name): return z3.BitVec(name, 64)
def limb64(name): return z3.Concat(z3.BitVec(name + 'h', 32), z3.BitVec(name + 'l', 32))
def limbval(model, name):
    """value of an input created with limb64/bv64 from a Res.model"""
    if name in model: return model[name]
    return (model.get(name + 'h', 0) << 32) | model.get(name + 'l', 0)

def ev(term, model_ints):
    """exact evaluation of a BV/Bool term under an assignment {varname: int}"""
    if is_c(term): return term
    subs = []
    seen = {}
    def collect(t):
        if t.get_id() in seen: return
        seen[t.get_id()] = t
        if z3.is_const(t) and t.decl().kind() == z3.Z3_OP_UNINTERPRETED:
            nm = t.decl().name()
            v = model_ints.get(nm, 0)
            subs.append((t, z3.BitVecVal(v, t.size()) if z3.is_bv(t) else (z3.BoolVal(bool(v)) if z3.is_bool(t) else z3.IntVal(v))))
        for c in t.children(): collect(c)
    collect(term)
    r = z3.simplify(z3.substitute(term, *subs))
    if z3.is_bv_value(r): return r.as_long()
    if z3.is_true(r): return 1
    if z3.is_false(r): return 0
    if z3.is_int_value(r): return r.as_long()
    raise Unsupported('evaluation did not reduce: %s' % r)

# ---- native replay library
_libs = {}
def native(bdir, cfg):
    k = (bdir, cfg)
    if k not in _libs:
        if cfg == 'avx512' and 'avx512f' not in open('/proc/cpuinfo').read(): return None
        _libs[k] = ctypes.CDLL(os.path.join(bdir, 'libreplay_%s.so' % cfg))
    return _libs[k]
def nfn(bdir, cfg, mangled, restype=None, argtypes=None):
    lib = native(bdir, cfg)
    if lib is None: return None
    f = getattr(lib, mangled.lstrip('@'))
    f.restype = restype
    if argtypes is not None: f.argtypes = argtypes
    return f
def abuf(n, align=64):
    """aligned uint64 buffer"""
    raw = (ctypes.c_uint64 * (n + align // 8))()
    addr = ctypes.addressof(raw); off = (-addr) % align
    arr = (ctypes.c_uint64 * n).from_address(addr + off); arr._keep = raw
    return arr

def forked(fn, timeout=120):
    """run fn() in a forked child (native code that may crash); returns ('ok', value) | ('signal', n) | ('exit', code) | ('timeout', None)"""
    import pickle, signal, select
    r, w_ = os.pipe(); pid = os.fork()
    if pid == 0:
        os.close(r)
        try:
            devnull = os.open(os.devnull, os.O_WRONLY); os.dup2(devnull, 2)
            v = fn(); os.write(w_, pickle.dumps(v)); os._exit(0)
        except BaseException as e:
            try: os.write(w_, pickle.dumps(('pyexc', repr(e))))
            except Exception: pass
            os._exit(3)
    os.close(w_); data = b''; t0 = time.time()
    while True:
        rl, _, _ = select.select([r], [], [], 1.0)
        if rl:
            chunk = os.read(r, 1 << 20)
            if not chunk: break
            data += chunk
        if time.time() - t0 > timeout:
            os.kill(pid, signal.SIGKILL); os.waitpid(pid, 0); os.close(r); return ('timeout', None)
    os.close(r); _, st = os.waitpid(pid, 0)
    if os.WIFSIGNALED(st): return ('signal', os.WTERMSIG(st))
    code = os.WEXITSTATUS(st)
    if code == 0 and data: return ('ok', pickle.loads(data))
    return ('exit', code)
