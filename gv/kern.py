# Bit-precise (B mode) obligations for leaf kernels: execute a real function on symbolic words, prove an integer-level goal.
import z3, ctypes, json
from . import core, smt, build
from .interp import *
from .runner import ok, viol, inconc

P = 2**64 - 2**32 + 1

def census(ctx, cfg):
    key = '_census_' + cfg
    if not hasattr(ctx, key): setattr(ctx, key, json.load(open('%s/census_%s.json' % (ctx.bdir, cfg))))
    return getattr(ctx, key)
def sym(ctx, cfg, cls, name, ty=None, nparams=None):
    """mangled name ('@...') of a library method chosen by class, name and (optionally) its exact type string"""
    c = [m for m in census(ctx, cfg) if m['cls'] == cls and m['name'] == name and (ty is None or m['type'] == ty) and (nparams is None or len(m['params']) == nparams)]
    if len(c) != 1: raise Unsupported('symbol %s::%s %s: %d candidates' % (cls, name, ty, len(c)))
    return '@' + c[0]['mangled']

def run_kernel(ctx, cfg, mods, fn, mkargs, hooks=None):
    """execute fn on every feasible path. mkargs(w) -> (args, outs_fn). returns [(pc, ret, outs)]"""
    w = core.world(ctx.bdir, mods)
    w.hooks = dict(w.base_hooks)
    if hooks: hooks(w)
    res = []
    def go(it):
        args, outs = mkargs(w)
        ret = it.call(fn, args)
        return ret, outs(ret)
    for p in explore(w, go):
        if p.status != 'ok': res.append((p.pc, p.status, p.result))
        else: res.append((p.pc, 'ok', p.result))
    return res

def prove_paths(ctx, paths, goal, pre=(), timeout=None, twin=None):
    """paths from run_kernel; goal(tr, ret, outs) -> list[(label, formula)]; pre: BV-level assumptions / callables.
       returns ('unsat', info) | ('sat', model, label, info) | ('unknown', info) | ('event', status, exc)"""
    tmo = timeout or (300 if ctx.thorough else 100)
    infos = []; nq = 0
    for pc, status, res in paths:
        if status != 'ok': return ('event', status, res, pc)
        ret, outs = res
        # vacuity guard: preconditions + path condition must be satisfiable
        vq = smt.prove(lambda tr: z3.BoolVal(False), assumptions=list(pre) + list(pc), timeout=min(tmo, 30))
        if vq.status == 'unsat': return ('unknown', 'vacuous: assumptions of this path are unsatisfiable')
        # probe the labels once (with a throw-away translator) to enumerate them
        labels = [l for l, _ in goal(smt.T(), ret, outs)]
        for li, lab in enumerate(labels):
            r = smt.prove(lambda tr: goal(tr, ret, outs)[li][1], assumptions=list(pre) + list(pc), timeout=tmo)
            nq += 1; infos.append('%s:%s' % (lab, r.variant or r.status))
            if r.status == 'sat': return ('sat', r.model, lab, r.info)
            if r.status != 'unsat': return ('unknown', '%s: %s' % (lab, r.info))
    return ('unsat', '%d queries; %s' % (nq, ' '.join(infos[:6])))

def compare_constants(w, fname, lo=5, hi=1 << 20, depth=2):
    """integer constants that the function (and its callees up to `depth`) compares a value with: candidate size/length thresholds.
       Used to add size classes on both sides of every threshold present in the code under test (the bound follows the code)."""
    out = set(); seen = set(); todo = [(fname, 0)]
    while todo:
        fn, d = todo.pop()
        if fn in seen or fn not in w.funcs: continue
        seen.add(fn); f = w.funcs[fn]
        for lab in f.order:
            for ins in f.blocks[lab]:
                if ins.op == 'icmp':
                    for v in (ins.a, ins.b):
                        if isinstance(v, tuple) and v[0] == 'int' and lo <= v[1] <= hi: out.add(v[1])
                elif ins.op == 'switch':
                    for (ct, cv), _ in ins.cases:
                        if isinstance(cv, tuple) and cv[0] == 'int' and lo <= cv[1] <= hi: out.add(cv[1])
                elif ins.op in ('call', 'invoke') and d < depth:
                    cal = getattr(ins, 'callee', None)
                    if isinstance(cal, tuple) and cal[0] == 'global': todo.append((cal[1], d + 1))
    return sorted(out)

def ncall(ctx, cfg, fn, args, restype=None):
    f = core.nfn(ctx.bdir, cfg, fn, restype)
    if f is None: return None
    return f(*args)

def u64buf(vals, align=64):
    b = core.abuf(max(1, len(vals)), align)
    for i, v in enumerate(vals): b[i] = v & (2**64 - 1)
    return b
