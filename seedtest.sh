#!/bin/bash
# usage: seedtest.sh <mutation dir with patch.diff + demo + build.sh> <seed name> <check ids...>
# 1. confirms in a scratch worktree that the change compiles, passes the repo's tests, fails its demo (and the demo passes without it)
# 2. applies it to /repo, runs the named checks (quick), restores /repo
M=$1; NAME=$2; shift 2; CHECKS="$@"
W=/tmp/mut/verify_$$; OUT=/tmp/mut/verify_out_$$; mkdir -p $OUT
git -C /repo worktree add -q --detach $W HEAD || exit 9
cleanup() { git -C /repo worktree remove --force $W 2>/dev/null; rm -rf $OUT; }
trap cleanup EXIT
res="name=$NAME"
( cd $OUT && cp -r $M/* . && bash ./build.sh $W >demo_clean.log 2>&1 ); res="$res demo_clean_rc=$?"
git -C $W apply $M/patch.diff || { echo "$res PATCH-DOES-NOT-APPLY"; exit 8; }
( cd $W && g++ tests/tests.cpp src/*.cpp -lgtest -lgmp -O3 -Wall -pthread -fopenmp -mavx2 -o $OUT/testcpu 2>$OUT/build.log && $OUT/testcpu > $OUT/tests.log 2>&1 ); trc=$?
res="$res tests_rc=$trc passed=$(grep -c '\[       OK \]' $OUT/tests.log 2>/dev/null)"
( cd $OUT && bash ./build.sh $W >demo_mut.log 2>&1 ); res="$res demo_mut_rc=$?"
echo "$res"
git -C /repo apply $M/patch.diff || { echo "cannot apply to /repo"; exit 7; }
for c in $CHECKS; do
  out=$(cd /verif && ./check $c --tier ${TIER:-quick} 2>&1); rc=$?
  echo "  check $c rc=$rc $(echo "$out" | grep -c '^VIOLATION') violation line(s); $(echo "$out" | grep -m1 -A1 '^VIOLATION' | tail -1 | cut -c1-260)"
  echo "$out" | tail -1 | sed 's/^/    /'
done
git -C /repo checkout -- .
