#!/bin/bash
# re-runs every archived behaviour-preserving refactoring: applies refactorings/<name>/patch.diff to /repo, runs the checks named in its meta.json
# (quick tier) and restores /repo.  A refactoring must never produce a VIOLATION line; exit 0 is expected unless meta.json documents an
# inconclusive answer (exit 2) for a check.   usage: refcheck.sh [name-glob]
cd /verif
bad=0; tot=0
for d in refactorings/${1:-*}/; do
  n=$(basename $d)
  checks=$(python3 -c "import json;print(' '.join(json.load(open('$d/meta.json'))['checks']))")
  exp=$(python3 -c "import json;print(json.load(open('$d/meta.json'))['expected'])")
  git -C /repo apply /verif/$d/patch.diff || { echo "$n: patch does not apply"; bad=$((bad+1)); continue; }
  for c in $checks; do
    out=$(timeout ${CHECK_TMO:-1500} ./check $c --tier quick 2>&1); rc=$?; nv=$(echo "$out" | grep -c '^VIOLATION')
    tot=$((tot+1)); tag=""
    if [ $nv -ne 0 ] || [ $rc -eq 1 ]; then tag="FALSE-ALARM"; bad=$((bad+1));
    elif [ $rc -ne 0 ]; then case "$exp" in *"$c"*) tag="(documented inconclusive)";; *) tag="UNEXPECTED-INCONCLUSIVE"; bad=$((bad+1));; esac; fi
    echo "$n check=$c rc=$rc violations=$nv $tag $(echo "$out" | tail -1 | cut -c1-110)"
  done
  git -C /repo checkout -- .
done
echo "REFCHECK total=$tot unexpected=$bad"
